"""
C18 -- a child runs the command only in the environment it was promised.

Implementation side: the real `Subprocess._spawn_as_child` / `FastCGISubprocess` (with the real
`_prepare_child_fds`, `set_uid`) on a real `ServerOptions` object, so that the real
`ServerOptions.{setpgrp,dup2,close_fd,chdir,setumask,execve,write,_exit,drop_privileges}` run too.
The seam is the `os` / `pwd` / `grp` modules *as seen by supervisor.options and supervisor.process*:
they are replaced, for the duration of one run, by recording proxies that consult a fault table
(call index -> exception).  Nothing is forked or exec'ed.

Correspondence: configuration x fault table -> ordered call log, against Model/Child.lean.
Monitors: the property statement over the recorded log (independent of the model).
"""
import errno as errno_mod
import os
import re

ID = 'C18'
LEAN_PROPS = 'SupervisorModel.Props.C18'
DRIVER = 'drv_c18'
GENERATED = ['Child']
TRUSTED = [
    "real fork/exec, descriptor inheritance and the kernel's setuid/setgid/setgroups/chdir/umask semantics are not modelled: the log of calls with arguments is",
    "a successful execve never returns (the recording proxy stops recording after it; the model ends the log there); os._exit cannot fail",
    "runtime formatting: errno.errorcode names, '%s, %s' % (type, value) of an exception, as_bytes/UTF-8 encoding of the message; the traceback file/line in the 'couldn't exec' message is canonicalised to '?'",
    "config.uid is an integer (options.py converts user names with name_to_uid at parse time); the pwd.getpwnam branch of drop_privileges is outside the model",
    "close_fd swallows OSError (EBADF for a descriptor that is not open is the normal case); 'closed' in the theorems means the close was attempted and raised nothing but OSError",
    "server sections: ConfigParser's stripping of values, the split of `port=host:port` at the last colon with the integer conversion (datatypes.inet_address) and os.path's normalisation of the socket path (normalize_path) are inputs of the model (host as written, port number, normalised path); the model covers host lower-casing / '*', the order of server_configs, the choice of options.serverurl and the AUTO test of a program's serverurl",
]
ASSUMPTIONS = [
    "faults are injected at the os/pwd/grp boundary; exception classes: OSError(errno), KeyError, one other exception class (RuntimeError)",
    "process.get_execv_args is out of scope: its result (filename, argv) is an input",
    "failure_message_and_127 covers the ways the calls fail (Props.C18.Raises): OSError with any errno from setgroups/setgid/setuid/chdir, KeyError from pwd.getpwuid, any exception from umask/execve; a non-OSError out of those system calls or a non-KeyError out of the lookup (not raised by CPython for well-typed arguments) ends in _exit(127) without a specific reason (any_failure_exits_127)",
]
RULE = ("cases = configuration x fault table. Configurations: a structured product over fcgi, redirect_stderr, minfds "
        "(0..9, occasionally 1024), uid (None / same as current / other with current uid 0 / other as non-root), directory, "
        "umask, serverurl on config / options / empty, group, environment (overrides of SUPERVISOR_* and of os.environ keys, "
        "non-ASCII values), argv (also empty); whole files (file_cases): 2-5 program / eventlistener / fcgi-program sections of ONE configuration file with "
        "different environment= (none, a key of its own, a key every program sets differently, a key of the [supervisord] environment, SUPERVISOR_* and "
        "os.environ keys, %(program_name)s / %(process_num)d values), with and without a [supervisord] environment, file order and processing order "
        "(priorities) varied (2 and 3 programs: small-scope exhaustive), parsed by the real ServerOptions, every resulting process configuration spawned "
        "through the real _spawn_as_child and its execve environment compared with what the file promises THAT program; server sections of the file "
        "(none / unix / inet / both in either file order / several of one family, named sections; inet `host:port`, `*:port`, `:port`, `port`, upper-case and "
        "IPv6 hosts; absolute, unnormalised, relative, ~ and padded socket paths; with and without authentication) x per-program serverurl (unset, AUTO in several "
        "spellings, explicit http / unix urls, empty) x program / eventlistener / fcgi-program, options.serverurl left as the REAL realize() computed it, "
        "SUPERVISOR_SERVER_URL in the execve environment compared with the documented choice computed from the file. Fault tables: none; every single call index x every exception class "
        "(exhaustive); sampled pairs (thorough: all pairs for small configurations). A case is non-trivial when at least "
        "one optional step (uid, directory, umask, fcgi, fault) is present; distinct = distinct (config, faults)")
TECHNIQUE = ("Lean 4 theorems over a script model of _spawn_as_child whose conditions, constants, message texts and "
             "exception guards are regenerated from process.py/options.py; differential correspondence against the real "
             "methods under a recording os/pwd/grp proxy with exhaustive single-fault injection")
LEVEL_TEXT = ("exec_preconditions, no_exec_after_failure, never_returns, the environment composition (env_composition; configured_env_independent / "
              "exec_env_of_program: the configured environment of a program is the [supervisord] environment overlaid with its own section's, for any "
              "number and order of other programs, over the extracted per-process copy in read_config), the server url a child is told "
              "(server_url_choice / unix_server_preferred / inet_server_fallback: for every list of server configurations realize()'s two loops with their "
              "extracted guard, break, format and default give unix://<file of the first unix server>, else http://host:port of the last inet server with "
              "localhost for an empty host, else none; child_told_constructed_url / child_told_explicit_url: that, or the program's own serverurl, is the "
              "SUPERVISOR_SERVER_URL of the execve environment) and "
              "failure_message_and_127 (every errno at setgroups/setgid/setuid/chdir, KeyError at the password lookup, every "
              "exception at umask/execve) are proved for every configuration and every fault oracle (no bound on minfds, "
              "environment size or number of faults)")
LEVEL_NOTE = ("trusts Lean's kernel, the extractor, the recording proxy; the real kernel's effect of the calls "
              "(descriptor inheritance, identity change) is outside; see DESIGN.md C18")
DESIGN_REF = "DESIGN.md section 6, C18"

OTHER_DESC = "<class 'RuntimeError'>, boom"
KEY_DESC = "<class 'KeyError'>, 'nope'"


# ---------------------------------------------------------------------------------------------
# canonical encoding shared with Model/Child.lean
def hs(s):
    return 's' + s.encode('utf-8').hex()


def opt_s(s):
    return 'N' if s is None else hs(s)


def opt_i(i):
    return 'N' if i is None else str(i)


def env_s(d):
    if not d:
        return '-'
    return ','.join('%s:%s' % (hs(k), hs(v)) for k, v in d.items())


def case_line(c):
    grdb = ';'.join('%d:%s' % (gid, ','.join(hs(m) for m in ms) or '-') for gid, ms in c['grdb']) or '-'
    return ' '.join([
        'case child',
        'fcgi=%d' % c['fcgi'], 'sock=%d' % c['sock'], 'pin=%d' % c['pin'], 'pout=%d' % c['pout'],
        'perr=%d' % c['perr'], 'redirect=%d' % c['redirect'], 'minfds=%d' % c['minfds'],
        'uid=' + opt_i(c['uid']), 'cur=%d' % c['cur'], 'pwname=' + hs(c['pwname']), 'pwgid=%d' % c['pwgid'],
        'grdb=' + grdb, 'osenv=' + env_s(c['osenv']), 'name=' + hs(c['name']), 'group=' + opt_s(c['group']),
        'surl=' + opt_s(c['surl']), 'osurl=' + opt_s(c['osurl']),
        'env=' + ('N' if c['env'] is None else env_s(c['env'])), 'dir=' + opt_s(c['dir']),
        'umask=' + opt_i(c['umask']), 'file=' + hs(c['file']),
        'argv=' + (','.join(hs(a) for a in c['argv']) or '-'),
    ])


def errname(e):
    return str(errno_mod.errorcode.get(e, e))


def fault_token(f):
    """f = ('O', errno) | ('K',) | ('X',)"""
    if f[0] == 'O':
        return 'O%d:%s' % (f[1], hs(errname(f[1])))
    if f[0] == 'K':
        return 'K' + hs(KEY_DESC)
    return 'X' + hs(OTHER_DESC)


def op_line(faults):
    return ' '.join(['run'] + ['%d=%s' % (i, fault_token(f)) for i, f in sorted(faults.items())])


def make_exc(f):
    if f[0] == 'O':
        return OSError(f[1], os.strerror(f[1]))
    if f[0] == 'K':
        return KeyError('nope')
    return RuntimeError('boom')


# ---------------------------------------------------------------------------------------------
# recording proxies
class Recorder:
    def __init__(self, faults):
        self.faults = faults
        self.log = []          # (name, args tuple, fault or None)
        self.stopped = None    # 'exec' | 'exit'
        self.after = []        # calls made after the process would have ended (fake artefacts / violations)

    def call(self, name, *args):
        if self.stopped:
            self.after.append((self.stopped, name, args))
            return
        i = len(self.log)
        f = self.faults.get(i) if name != '_exit' else None     # os._exit cannot fail
        self.log.append((name, args, f))
        if f is not None:
            raise make_exc(f)
        if name == 'execve':
            self.stopped = 'exec'
        elif name == '_exit':
            self.stopped = 'exit'


class FakeOS:
    def __init__(self, rec, cfg):
        self._rec, self._cfg = rec, cfg
        self.environ = dict(cfg['osenv'])

    def __getattr__(self, k):
        return getattr(os, k)

    def setpgrp(self): self._rec.call('setpgrp')
    def dup2(self, a, b): self._rec.call('dup2', a, b)
    def close(self, fd): self._rec.call('close', fd)
    def getuid(self):
        self._rec.call('getuid')
        return self._cfg['cur']
    def setgroups(self, gs): self._rec.call('setgroups', tuple(gs))
    def setgid(self, g): self._rec.call('setgid', g)
    def setuid(self, u): self._rec.call('setuid', u)
    def chdir(self, d): self._rec.call('chdir', d)
    def umask(self, m):
        self._rec.call('umask', m)
        return 0o022
    def execve(self, f, argv, env): self._rec.call('execve', f, tuple(argv), dict(env))
    def write(self, fd, data):
        self._rec.call('write', fd, bytes(data))
        return len(data)
    def _exit(self, code): self._rec.call('_exit', code)
    def fork(self): raise AssertionError('fork must not be called')


class FakePwd:
    def __init__(self, rec, cfg): self._rec, self._cfg = rec, cfg
    def getpwuid(self, uid):
        self._rec.call('getpwuid', uid)
        return (self._cfg['pwname'], 'x', uid, self._cfg['pwgid'], '', '/', '/bin/sh')
    def getpwnam(self, name):
        raise AssertionError('getpwnam not expected: config.uid is numeric')


class FakeGrp:
    def __init__(self, rec, cfg): self._rec, self._cfg = rec, cfg
    def getgrall(self):
        self._rec.call('getgrall')
        return [('g%d' % gid, 'x', gid, list(ms)) for gid, ms in self._cfg['grdb']]


class FakeSock:
    def __init__(self, rec, fd): self._rec, self._fd = rec, fd
    def fileno(self):
        self._rec.call('fileno')
        return self._fd


class _Group:
    """stands for the ProcessGroup the process belongs to (only .config.name is read)"""
    def __init__(self, name):
        class C: pass
        self.config = C()
        self.config.name = name


_OPTIONS = None


def get_options():
    global _OPTIONS
    if _OPTIONS is None:
        from supervisor.options import ServerOptions
        from supervisor.tests.base import DummyLogger
        _OPTIONS = ServerOptions()
        _OPTIONS.logger = DummyLogger()
    return _OPTIONS


def run_impl(c, faults):
    """drive the real _spawn_as_child; returns (Recorder, escaped exception or None)"""
    import supervisor.options as so
    import supervisor.process as sp
    from supervisor.options import ProcessConfig, FastCGIProcessConfig
    options = get_options()
    options.minfds = c['minfds']
    options.serverurl = c['osurl']
    kw = dict(name=c['name'], uid=c['uid'], command=' '.join(c['argv']), directory=c['dir'], umask=c['umask'],
              priority=999, autostart=True, autorestart=True, startsecs=1, startretries=3,
              stdout_logfile=None, stdout_capture_maxbytes=0, stdout_events_enabled=False, stdout_syslog=False,
              stdout_logfile_backups=0, stdout_logfile_maxbytes=0, stderr_logfile=None, stderr_capture_maxbytes=0,
              stderr_logfile_backups=0, stderr_logfile_maxbytes=0, stderr_events_enabled=False, stderr_syslog=False,
              stopsignal=15, stopwaitsecs=10, stopasgroup=False, killasgroup=False, exitcodes=(0,),
              redirect_stderr=bool(c['redirect']), environment=c['env'], serverurl=c['surl'])
    rec = Recorder(faults)
    if c['fcgi']:
        config = FastCGIProcessConfig(options, **kw)
        proc = sp.FastCGISubprocess(config)
    else:
        config = ProcessConfig(options, **kw)
        proc = sp.Subprocess(config)
    proc.group = None if c['group'] is None else _Group(c['group'])
    return spawn_proc(proc, c, rec)


def spawn_proc(proc, c, rec):
    """the real _spawn_as_child of an existing process object under the recording proxies"""
    import supervisor.options as so
    import supervisor.process as sp
    if c['fcgi']:
        proc.fcgi_sock = FakeSock(rec, c['sock'])
    proc.pipes = {'child_stdin': c['pin'], 'child_stdout': c['pout'],
                  'child_stderr': None if c['redirect'] else c['perr'],
                  'stdin': 100, 'stdout': 101, 'stderr': None if c['redirect'] else 102}
    fos = FakeOS(rec, c)
    saved = (so.os, so.pwd, so.grp, sp.os)
    so.os, so.pwd, so.grp, sp.os = fos, FakePwd(rec, c), FakeGrp(rec, c), fos
    escaped = None
    try:
        try:
            proc._spawn_as_child(c['file'], list(c['argv']))
        except BaseException as ex:      # what would continue in supervisord's code had _exit returned
            escaped = ex
    finally:
        so.os, so.pwd, so.grp, sp.os = saved
    return rec, escaped


_TB = re.compile(rb": file: .* line: .*\n\Z", re.S)


def canon_msg(data):
    """the traceback position inside the bare-except message is not an observable of interest"""
    if b"couldn't exec" in data and b': file: ' in data:
        data = _TB.sub(b": file: ? line: ?\n", data)
    return 's' + data.hex()


def show_event(ev):
    name, args, f = ev
    if name in ('setpgrp', 'fileno', 'getuid', 'getgrall'):
        s = name
    elif name == 'dup2':
        s = 'dup2:%s:%s' % args
    elif name in ('close', 'getpwuid', 'setgid', 'setuid', 'umask'):
        s = '%s:%s' % (name, args[0])
    elif name == 'setgroups':
        s = 'setgroups:' + ','.join(str(g) for g in args[0])
    elif name == 'chdir':
        s = 'chdir:' + hs(args[0])
    elif name == 'execve':
        s = 'execve:%s:%s:%s' % (hs(args[0]), ','.join(hs(a) for a in args[1]),
                                 ','.join('%s=%s' % (hs(k), hs(v)) for k, v in sorted(args[2].items())))
    elif name == 'write':
        s = 'write:%s:%s' % (args[0], canon_msg(args[1]))
    elif name == '_exit':
        s = '_exit:%s' % (args[0],)
    else:
        s = '?' + name
    if f is not None:
        s += '!' + f[0]
    return s


def impl_line(rec):
    return ' '.join(show_event(e) for e in rec.log)


# ---------------------------------------------------------------------------------------------
# monitor: the property statement over the recorded log
def expected_env(c):
    env = dict(c['osenv'])
    env['SUPERVISOR_ENABLED'] = '1'
    su = c['surl'] if c['surl'] is not None else c['osurl']
    if su:
        env['SUPERVISOR_SERVER_URL'] = su
    env['SUPERVISOR_PROCESS_NAME'] = c['name']
    if c['group'] is not None:
        env['SUPERVISOR_GROUP_NAME'] = c['group']
    env.update(c['env'] or {})
    return env


def swallowed(ev):
    return ev[0] == 'close' and ev[2] is not None and ev[2][0] == 'O'


def monitor(ctx, c, faults, rec, escaped, inp=None):
    log = rec.log
    inp = inp or {'config': c, 'faults': {str(k): list(v) for k, v in faults.items()}}
    def bad(kind, what):
        ctx.violation(kind, what + ' | log: ' + impl_line(rec)[:600], inp)
    names = [e[0] for e in log]
    # -- never returns: the log ends with _exit(127) unless execve succeeded
    last = log[-1] if log else None
    execed = last is not None and last[0] == 'execve' and last[2] is None
    if not execed:
        if last is None or last[0] != '_exit':
            bad('child-returns-without-exit', 'the child returned into supervisord code without _exit')
        elif last[1] != (127,):
            bad('exit-status-not-127', 'exit status %r' % (last[1],))
    if rec.stopped == 'exit' and rec.after:
        bad('call-after-exit', 'system call after _exit: %r' % (rec.after[0],))
    if names.count('_exit') > 1 or ('_exit' in names[:-1]):
        bad('exit-not-last', '_exit is not the last call')
    # -- execve only after the promised preparation, all of it successful
    for i, ev in enumerate(log):
        if ev[0] != 'execve':
            continue
        pre = log[:i]
        failed = [e for e in pre if e[2] is not None and not swallowed(e)]
        if failed:
            bad('exec-after-failure', 'execve attempted after failed %s' % (failed[0][0],))
        want = [('setpgrp', ())]
        if c['fcgi']:
            want.append(('fileno', ()))
        want += [('dup2', ((c['sock'] if c['fcgi'] else c['pin']), 0)), ('dup2', (c['pout'], 1)),
                 ('dup2', ((c['pout'] if c['redirect'] else c['perr']), 2))]
        want += [('close', (fd,)) for fd in range(3, c['minfds'])]
        if c['uid'] is not None:
            want += [('getpwuid', (c['uid'],)), ('getuid', ())]
            if c['cur'] != c['uid']:
                if c['cur'] != 0:
                    bad('exec-with-wrong-identity', 'execve although uid %r cannot be assumed by uid %r' % (c['uid'], c['cur']))
                groups = [c['pwgid']] + [gid for gid, ms in c['grdb'] if c['pwname'] in ms]
                want += [('getgrall', ()), ('setgroups', (tuple(groups),)), ('setgid', (c['pwgid'],)), ('setuid', (c['uid'],))]
        if c['dir'] is not None:
            want.append(('chdir', (c['dir'],)))
        if c['umask'] is not None:
            want.append(('umask', (c['umask'],)))
        got = [(e[0], e[1]) for e in pre]
        if got != want:
            k = next((j for j in range(min(len(got), len(want))) if got[j] != want[j]), min(len(got), len(want)))
            kind = 'exec-preparation-wrong'
            w = want[k] if k < len(want) else None
            g = got[k] if k < len(got) else None
            if w and w[0] in ('setuid', 'setgid', 'setgroups', 'getpwuid', 'getuid', 'getgrall'): kind = 'exec-without-user-switch'
            elif w and w[0] == 'chdir': kind = 'exec-without-chdir'
            elif w and w[0] == 'umask': kind = 'exec-without-umask'
            elif w and w[0] in ('dup2', 'fileno'): kind = 'exec-with-wrong-descriptors'
            elif w and w[0] == 'close': kind = 'exec-with-open-descriptors'
            elif w and w[0] == 'setpgrp': kind = 'exec-without-setpgrp'
            bad(kind, 'before execve: step %d is %r, promised %r' % (k, g, w))
        if (ev[1][0], list(ev[1][1])) != (c['file'], list(c['argv'])):
            bad('exec-wrong-command', 'execve(%r, %r)' % (ev[1][0], ev[1][1]))
        if ev[1][2] != expected_env(c):
            bad('exec-wrong-environment', 'environment differs: %r' % sorted(set(ev[1][2].items()) ^ set(expected_env(c).items()))[:4])
        if ev[2] is None and i != len(log) - 1:
            bad('call-after-exec', 'calls recorded after a successful execve')
    # -- a failing user switch / chdir / exec: reason on descriptor 2, then the final message, then 127
    for i, ev in enumerate(log):
        if ev[2] is None or swallowed(ev):
            continue
        name = ev[0]
        if 'execve' in names[i + 1:]:
            bad('exec-after-failure', 'execve attempted after failed %s' % name)
        reason = None
        if name in ('getpwuid', 'setgroups', 'setgid', 'setuid', 'getuid', 'getgrall'):
            reason = b"supervisor: couldn't setuid to %d: " % c['uid']
        elif name == 'chdir':
            reason = ("supervisor: couldn't chdir to %s: " % c['dir']).encode('utf-8')
        elif name in ('umask', 'execve'):
            reason = b"supervisor: couldn't exec "
        if reason is None:
            continue
        plausible = ev[2][0] == 'O' or (name == 'getpwuid' and ev[2][0] == 'K') or name in ('umask', 'execve')
        if name in ('getuid', 'getgrall', 'getpwuid') and ev[2][0] == 'O':
            plausible = False     # these do not fail with an errno in practice
        if name in ('umask', 'execve') and ev[2][0] == 'O' and not c['argv']:
            plausible = False     # empty argv cannot come out of get_execv_args
        if not plausible:
            continue
        nxt = log[i + 1] if i + 1 < len(log) else None
        if not (nxt and nxt[0] == 'write' and nxt[1][0] == 2 and nxt[1][1].startswith(reason)):
            kind = 'no-reason-written:' + name + ('-raised' if name == 'setuid' else '')
            bad(kind, 'after failed %s (%s) the next call is %r, not a write of the reason to descriptor 2'
                % (name, fault_token(ev[2])[:6], nxt and nxt[:2]))
        elif ev[2][0] == 'O' and errname(ev[2][1]).encode() not in nxt[1][1] and name in ('chdir', 'umask', 'execve'):
            bad('reason-without-errno:' + name, 'message %r does not name %s' % (nxt[1][1], errname(ev[2][1])))
    # non-root refusal: uid configured, not ours, and we are not root
    if c['uid'] is not None and c['cur'] != c['uid'] and c['cur'] != 0:
        if 'execve' in names:
            bad('exec-with-wrong-identity', 'execve although the user switch is impossible')
        j = next((k for k, e in enumerate(log) if e[0] == 'getuid' and e[2] is None), None)
        if j is not None:
            nxt = log[j + 1] if j + 1 < len(log) else None
            if not (nxt and nxt[0] == 'write' and nxt[1][0] == 2 and nxt[1][1].startswith(b"supervisor: couldn't setuid to %d: " % c['uid'])):
                bad('no-reason-written:nonroot', 'non-root refusal not reported on descriptor 2')
    # every write goes to descriptor 2; the last write before _exit is the "not spawned" message
    for e in log:
        if e[0] == 'write' and e[1][0] != 2:
            bad('write-to-wrong-descriptor', 'write to descriptor %r' % (e[1][0],))
    if not execed and len(log) >= 2 and log[-1][0] == '_exit' and not (log[-2][0] == 'write' and b'not spawned' in log[-2][1][1]):
        bad('no-final-message', 'the call before _exit is %r' % (log[-2][:2],))


# ---------------------------------------------------------------------------------------------
# generators
ERRNOS = [errno_mod.EPERM, errno_mod.ENOENT, errno_mod.EACCES, errno_mod.EAGAIN, errno_mod.EINVAL,
          errno_mod.EBADF, errno_mod.ENOTDIR, errno_mod.EMFILE, errno_mod.ENOEXEC, 9999]


def base_cfg():
    return dict(fcgi=0, sock=7, pin=10, pout=11, perr=12, redirect=0, minfds=6, uid=None, cur=0, pwname='www',
                pwgid=33, grdb=[(33, ['www']), (44, ['www', 'bob']), (55, ['bob'])], osenv={'PATH': '/bin', 'HOME': '/root'},
                name='prog', group='grp', surl=None, osurl='unix:///tmp/s.sock', env=None, dir=None, umask=None,
                file='/bin/cat', argv=['/bin/cat', '-n'])


def gen_cfg(rng):
    c = base_cfg()
    c['fcgi'] = rng.choice([0, 0, 1])
    c['redirect'] = rng.choice([0, 1])
    c['minfds'] = rng.choice([0, 2, 3, 4, 5, 6, 9])
    c['pin'], c['pout'], c['perr'], c['sock'] = rng.sample(range(3, 40), 4)
    mode = rng.choice(['none', 'same', 'root', 'root', 'nonroot', 'toroot'])
    if mode == 'same':
        c['uid'] = c['cur'] = rng.choice([0, 1000])
    elif mode == 'root':
        c['uid'], c['cur'] = rng.choice([1, 33, 1000]), 0
    elif mode == 'nonroot':
        c['uid'], c['cur'] = rng.choice([33, 1000]), 500
    elif mode == 'toroot':
        c['uid'], c['cur'] = 0, 500
    c['pwname'] = rng.choice(['www', 'bob', 'nobody', 'wéb'])
    c['pwgid'] = rng.choice([33, 44, 0])
    c['grdb'] = rng.choice([[], [(33, ['www']), (44, ['www', 'bob']), (55, ['bob'])], [(1, ['wéb', 'www']), (2, [])]])
    c['dir'] = rng.choice([None, None, '/tmp', '/no such/dir', '/tmp/é', ''])
    c['umask'] = rng.choice([None, None, 0o022, 0o077, 0])
    c['surl'] = rng.choice([None, None, 'http://h:9001', ''])
    c['osurl'] = rng.choice([None, 'unix:///tmp/s.sock', ''])
    c['group'] = rng.choice([None, 'grp', 'g é'])
    c['name'] = rng.choice(['prog', 'p_0', 'nä me'])
    c['osenv'] = rng.choice([{}, {'PATH': '/bin', 'HOME': '/root'},
                             {'SUPERVISOR_ENABLED': '0', 'SUPERVISOR_SERVER_URL': 'old', 'SUPERVISOR_GROUP_NAME': 'oldg', 'X': 'ü'}])
    c['env'] = rng.choice([None, None, {}, {'A': '1'}, {'PATH': '/opt/bin', 'SUPERVISOR_PROCESS_NAME': 'fake', 'B': 'b=c, d'},
                           {'SUPERVISOR_ENABLED': 'no', 'HOME': ''}])
    c['file'], c['argv'] = rng.choice([('/bin/cat', ['/bin/cat', '-n']), ('/usr/bin/é', ['é', 'a b']), ('/bin/true', ['true'])])
    if rng.random() < 0.03:
        c['argv'] = []
    return c


def structured_cfgs():
    """one configuration per combination of the switches that change the shape of the script"""
    out = []
    for fcgi in (0, 1):
        for redirect in (0, 1):
            for uidmode in ('none', 'same', 'root', 'nonroot'):
                for d in (None, '/srv/app'):
                    for um in (None, 0o027):
                        c = base_cfg()
                        c.update(fcgi=fcgi, redirect=redirect, dir=d, umask=um, minfds=5)
                        if uidmode == 'same': c.update(uid=1000, cur=1000)
                        elif uidmode == 'root': c.update(uid=33, cur=0)
                        elif uidmode == 'nonroot': c.update(uid=33, cur=1000)
                        out.append(c)
    return out


FAULT_CLASSES = [('O', errno_mod.EPERM), ('O', errno_mod.ENOENT), ('K',), ('X',)]

# regression corpus: (config overrides, faults by *call name* of the fault-free run) -- resolved to indices at run time
CORPUS = [
    # F19 (fixed): the last write fails -> _exit(127) must still happen
    ({'dir': '/nonexistent'}, [('chdir', ('O', errno_mod.ENOENT)), ('write#1', ('O', errno_mod.EBADF)), ('write#2', ('O', errno_mod.EBADF))]),
    ({}, [('execve', ('O', errno_mod.ENOENT)), ('write#2', ('O', errno_mod.EPIPE))]),
    ({}, [('execve', ('X',)), ('write#1', ('X',)), ('write#2', ('X',))]),
    # F22 (fixed in /repo, 78df087): os.setuid raising must be reported like the other failures (regression)
    ({'uid': 33, 'cur': 0}, [('setuid', ('O', errno_mod.EPERM))]),
    ({'uid': 33, 'cur': 0}, [('setuid', ('O', errno_mod.EAGAIN))]),
    ({'uid': 33, 'cur': 0}, [('setgid', ('O', errno_mod.EPERM))]),
    ({'uid': 33, 'cur': 0}, [('setgroups', ('O', errno_mod.EPERM))]),
    ({'uid': 33, 'cur': 0}, [('getpwuid', ('K',))]),
    ({'uid': 33, 'cur': 1000}, []),
    ({'fcgi': 1, 'redirect': 1}, [('fileno', ('X',))]),
    ({'umask': 0o77}, [('umask', ('O', errno_mod.EINVAL))]),
    ({'argv': []}, [('execve', ('O', errno_mod.ENOENT))]),
    ({'minfds': 1024}, [('close', ('O', errno_mod.EBADF))]),
]


def resolve_named_faults(c, named):
    """turn [('write#2', f)] into {index: f} by running fault-free prefixes"""
    faults = {}
    for nm, f in named:
        base, _, k = nm.partition('#')
        k = int(k) if k else 1
        rec, _ = run_impl(c, faults)
        idx = [i for i, e in enumerate(rec.log) if e[0] == base]
        if len(idx) < k:
            return None
        faults[idx[k - 1]] = f
    return faults


def one(ctx, c, faults, cases, impls):
    rec, escaped = run_impl(c, faults)
    line = impl_line(rec)
    monitor(ctx, c, faults, rec, escaped)
    for e in rec.log:
        ctx.count('call:' + e[0])
        if e[2] is not None:
            ctx.count('fault:%s:%s' % (e[0], e[2][0]))
    last = rec.log[-1]
    ctx.count('outcome:' + ('exec' if last[0] == 'execve' and last[2] is None else 'exit127'))
    ctx.count('faults-per-run:%d' % sum(1 for e in rec.log if e[2] is not None))
    nontrivial = bool(faults) or c['uid'] is not None or c['dir'] is not None or c['umask'] is not None or c['fcgi']
    ctx.case_done((case_line(c), op_line(faults)), nontrivial)
    cases.append((c, faults))
    impls.append(line)
    return rec


def single_faults(ctx, c, cases, impls, classes=FAULT_CLASSES):
    rec = one(ctx, c, {}, cases, impls)
    n = len(rec.log)
    for i in range(n):
        if rec.log[i][0] == '_exit':
            continue
        if rec.log[i][0] == 'close' and i > 0 and rec.log[i - 1][0] == 'close' and i + 1 < n and rec.log[i + 1][0] == 'close' and c['minfds'] > 12:
            continue   # interior of a long close run: same code path as its ends
        for f in classes:
            one(ctx, c, {i: f}, cases, impls)
    return rec


def failure_path_pairs(ctx, c, cases, impls):
    """single fault, then a second fault at every later index of the *resulting* run (covers the
    failing-write paths, which exist only after a first failure)"""
    rec0, _ = run_impl(c, {})
    for i in range(len(rec0.log)):
        if rec0.log[i][0] in ('_exit', 'close'):
            continue
        for f in (('O', errno_mod.EACCES), ('X',)):
            r1, _ = run_impl(c, {i: f})
            for j in range(i + 1, len(r1.log)):
                if r1.log[j][0] == '_exit':
                    continue
                for g in (('O', errno_mod.EPIPE), ('X',)):
                    one(ctx, c, {i: f, j: g}, cases, impls)
                    if r1.log[j][0] == 'write':
                        # and a third one on the final write
                        r2, _ = run_impl(c, {i: f, j: g})
                        for k in range(j + 1, len(r2.log)):
                            if r2.log[k][0] == 'write':
                                one(ctx, c, {i: f, j: g, k: ('O', errno_mod.EBADF)}, cases, impls)


def flush(ctx, cases, impls):
    """group by configuration and send to the model"""
    by = {}
    order = []
    for (c, faults), line in zip(cases, impls):
        key = case_line(c)
        if key not in by:
            by[key] = ([], [])
            order.append(key)
        by[key][0].append(op_line(faults))
        by[key][1].append(line)
    ctx.correspond('child', [(k, by[k][0]) for k in order], [by[k][1] for k in order])
    del cases[:], impls[:]


def merge_cases(ctx):
    """parse-time merge of [supervisord] environment into each program's (options.py read_config)"""
    from supervisor.options import ServerOptions
    import io
    cases, impls = [], []
    samples = [({}, {}), ({'A': '1'}, {}), ({}, {'B': '2'}), ({'A': '1', 'B': 'x'}, {'B': '2', 'C': '3'}),
               ({'PATH': '/a'}, {'PATH': '/b'}), ({'K': 'sect'}, {'K': 'prog', 'L': 'é'})]
    for sect, prog in samples:
        def fmt(d): return ','.join('%s="%s"' % kv for kv in d.items())
        text = "[supervisord]\n" + ("environment=%s\n" % fmt(sect) if sect else "") + \
               "[program:x]\ncommand=/bin/cat\n" + ("environment=%s\n" % fmt(prog) if prog else "")
        o = ServerOptions()
        o.configfile = io.StringIO(text)
        o.realize(args=[])
        env = o.process_group_configs[0].process_configs[0].environment
        want = dict(sect); want.update(prog)
        if env != want:
            ctx.violation('parse-merge-wrong', 'program environment %r, expected section overlaid by program %r' % (env, want),
                          {'section': sect, 'program': prog})
        impls.append(['env ' + ','.join('%s=%s' % (hs(k), hs(v)) for k, v in sorted(env.items()))])
        cases.append(('case child ' + case_line(base_cfg())[len('case child '):], ['merge %s %s' % (env_s(sect), env_s(prog))]))
        ctx.count('op:merge')
        ctx.case_done(('merge', tuple(sect.items()), tuple(prog.items())), bool(sect or prog))
    ctx.correspond('child-merge', cases, impls)


# ---------------------------------------------------------------------------------------------
# whole files: several programs of one configuration file, each spawned with the environment configured for IT
KIND_HEAD = {'program': 'program:', 'eventlistener': 'eventlistener:', 'fcgi': 'fcgi-program:'}


def fc_text(fc):
    def fmt(pairs):
        return ','.join('%s="%s"' % kv for kv in pairs)
    blocks = []
    sup = '[supervisord]\n' + ('environment=%s\n' % fmt(fc['supenv']) if fc['supenv'] else '')
    for sec in fc['sections']:
        b = '[%s%s]\ncommand=/bin/prog-%s\n' % (KIND_HEAD[sec['kind']], sec['name'], sec['name'])
        if sec['numprocs'] > 1:
            b += 'numprocs=%d\nprocess_name=%%(program_name)s_%%(process_num)d\n' % sec['numprocs']
        if sec.get('priority') is not None:
            b += 'priority=%d\n' % sec['priority']
        if sec['env'] is not None:
            b += 'environment=%s\n' % fmt(sec['env'])
        if sec.get('serverurl') is not None:
            b += 'serverurl=%s\n' % sec['serverurl']
        if sec['kind'] == 'eventlistener':
            b += 'events=TICK_5\n'
        if sec['kind'] == 'fcgi':
            b += 'socket=tcp://localhost:9%03d\n' % (len(sec['name']) + 10)
        blocks.append(b)
    if fc.get('group'):
        blocks.append('[group:%s]\nprograms=%s\n' % (fc['group']['name'], ','.join(fc['group']['programs'])))
    pos = fc.get('sup_pos', 0) % (len(blocks) + 1)
    blocks.insert(pos, sup)
    # server sections: in file order (fc_servers), each placed before the block with index 'at' of the blocks so far
    out = []
    srv = fc_servers(fc)
    for i, b in enumerate(blocks + [None]):
        for sv in srv:
            if min(sv.get('at', 0), len(blocks)) == i:
                out.append(srv_text(sv))
        if b is not None:
            out.append(b)
    return '\n'.join(out)


def fc_servers(fc):
    """the server sections of the file in FILE order"""
    srv = fc.get('servers') or []
    return [sv for _, _, sv in sorted((sv.get('at', 0), i, sv) for i, sv in enumerate(srv))] if srv else []


def srv_text(sv):
    head = ('inet_http_server' if sv['kind'] == 'inet' else 'unix_http_server') + (':' + sv['name'] if sv.get('name') else '')
    b = '[%s]\n' % head
    b += ('port=%s\n' % sv['port']) if sv['kind'] == 'inet' else ('file=%s\n' % sv['file'])
    if sv.get('auth'):
        b += 'username=u\npassword=p\n'
    return b


SURL = 'SUPERVISOR_SERVER_URL'


def fc_server_facts(fc):
    """what the FILE says about supervisord's HTTP servers, in file order (independent of options.py):
    unix = socket paths (as absolute normal paths: the same file as written), inet = (host, port) with host '' for every interface"""
    unix, inet, tokens = [], [], []
    for sv in fc_servers(fc):
        if sv['kind'] == 'unix':
            path = os.path.normpath(os.path.abspath(os.path.expanduser(sv['file'].strip())))
            unix.append(path)
            tokens.append('u:' + hs(path))
        else:
            v = sv['port'].strip()
            host, _, port = v.rpartition(':')
            raw_host = host if ':' in v else None
            host = host.lower()
            inet.append(('' if host in ('', '*') else host, int(port)))
            tokens.append('i:%s:%d' % (opt_s(raw_host), int(port)))
    return {'unix': unix, 'inet': inet, 'token': ','.join(tokens) or '-'}


def server_url_monitor(ctx, fc, facts, sec, env, rec, inp):
    """docs/configuration.rst `serverurl`: the program's own value, or (unset / AUTO) a url supervisord constructs, "giving
    preference to a server that listens on UNIX domain sockets over one that listens on an internet socket".  Checked on the
    environment handed to execve.  -> the url the child may be told (for the generic environment monitor)"""
    ex = [e for e in rec.log if e[0] == 'execve']
    raw = sec.get('serverurl')
    raw = raw.strip() if raw is not None else None
    explicit = raw is not None and raw.upper() != 'AUTO'
    unix_ok = ['unix://' + p for p in facts['unix']]
    inet_ok = ['http://%s:%d' % (h or 'localhost', p) for h, p in facts['inet']]
    want = unix_ok or inet_ok
    strict = raw if explicit else (unix_ok[0] if unix_ok else inet_ok[-1] if inet_ok else None)
    if not ex:
        return strict
    got = ex[0][1][2].get(SURL)
    inherited = fc['osenv'].get(SURL)
    if SURL in env or (explicit and raw == ''):
        return strict          # the configured environment= overrides it / `serverurl=` with nothing: the documentation is silent
    def same(a, b):
        return a is not None and (a == b or (b.startswith('http://') and a.lower() == b.lower()))
    def bad(sub, what):
        ctx.violation('server-url-not-the-documented-one:' + sub,
                      'program %r (serverurl=%r), servers of the file: unix %r inet %r: the command is exec\'ed with %s=%r; %s'
                      % (sec['name'], raw, facts['unix'], facts['inet'], SURL, got, what), inp)
    if explicit:
        if got != raw:
            bad('explicit-ignored', 'promised the program\'s own serverurl %r' % raw)
        return strict
    if not want:
        if got != inherited:
            bad('url-without-server', 'no server is configured: promised supervisord\'s own environment (%r)' % inherited)
        return strict
    for w in want:
        if same(got, w):
            return w
    if got is None or got == inherited:
        bad('missing', 'promised %r' % want[0])
    elif unix_ok and any(same(got, w) for w in inet_ok):
        bad('inet-preferred-over-unix', 'promised the UNIX domain socket server %r' % unix_ok[0])
    elif got.strip().upper() == 'AUTO':
        bad('auto-taken-literally', 'promised %r' % want[0])
    else:
        bad('not-a-configured-server', 'promised one of %r' % want)
    return strict


def fc_promised(fc):
    """{(group name, process name): (own environment, promised configured environment = [supervisord]'s overlaid by its own)}"""
    out = {}
    grouped = set(fc['group']['programs']) if fc.get('group') else set()
    for sec in fc['sections']:
        g = fc['group']['name'] if sec['name'] in grouped else sec['name']
        for num in range(sec['numprocs']):
            d = {'program_name': sec['name'], 'process_num': num, 'group_name': g}
            pname = sec['name'] if sec['numprocs'] == 1 else '%s_%d' % (sec['name'], num)
            own = dict((k, v % d) for k, v in (sec['env'] or []))
            env = dict(fc['supenv'] or [])
            env.update(own)
            out[(g, pname)] = (own, env, sec)
    return out


def file_case(ctx, fc, cases, impls, mcases, mimpls, ucases=None, uimpls=None):
    from supervisor.options import ServerOptions
    from supervisor.tests.base import DummyLogger
    import io
    text = fc_text(fc)
    o = ServerOptions()
    o.logger = DummyLogger()
    o.configfile = io.StringIO(text)
    o.realize(args=[])
    promised = fc_promised(fc)
    order, parsed = [], []
    seen = set()
    # with a 'servers' dimension options.serverurl is what the REAL realize() made of the file's server sections; without it
    # (earlier corpus entries) it is imposed
    facts = fc_server_facts(fc) if fc.get('servers') is not None else None
    if facts is not None:
        ctx.count('file-case:servers:%s' % ('+'.join(sv['kind'] for sv in fc_servers(fc)) or 'none'))
        real_servers = ','.join(('u:' + hs(sc['file'])) if 'file' in sc else 'i:%s:%d' % (hs(sc['host']), sc['port'])
                                for sc in o.server_configs) or '-'
    for g in o.process_group_configs:
        for pc in g.process_configs:
            key = (g.name, pc.name)
            inp = {'file_case': fc, 'program': list(key)}
            if key not in promised:
                ctx.violation('file-yields-unconfigured-process', 'process %r of group %r is not configured by the file' % (pc.name, g.name), inp)
                continue
            seen.add(key)
            own, env, sec = promised[key]
            order.append(own); parsed.append(dict(pc.environment))
            c = base_cfg()
            c.update(fcgi=1 if sec['kind'] == 'fcgi' else 0, name=pc.name, group=g.name, env=env, osenv=dict(fc['osenv']),
                     osurl=fc['osurl'], surl=None, file='/bin/prog-' + sec['name'], argv=['/bin/prog-' + sec['name']])
            o.minfds = c['minfds']
            if facts is None:
                o.serverurl = c['osurl']
            proc = pc.make_process(_Group(g.name))
            rec = Recorder({})
            rec, escaped = spawn_proc(proc, c, rec)
            actual = c
            if facts is not None:
                raw = sec.get('serverurl')
                raw = raw.strip() if raw is not None else None
                told = server_url_monitor(ctx, fc, facts, sec, env, rec, inp)
                if raw is not None and raw.upper() != 'AUTO':
                    c.update(surl=raw, osurl=None)
                else:
                    c.update(surl=None, osurl=told)
                actual = dict(c, surl=pc.serverurl, osurl=o.serverurl)     # the case the model's script of the child is run on
                ctx.count('file-case:serverurl:%s' % ('unset' if raw is None else 'AUTO' if raw.upper() == 'AUTO' else 'empty' if raw == '' else 'explicit'))
                ex = [e for e in rec.log if e[0] == 'execve']
                if ucases is not None:
                    ucases.append((case_line(actual), ['surl %s %s' % (opt_s(raw), facts['token'])]))
                    uimpls.append(['servers %s url %s child %s told %s' % (real_servers, opt_s(o.serverurl), opt_s(pc.serverurl),
                                                                          opt_s(ex[0][1][2].get(SURL)) if ex else 'N')])
            monitor(ctx, c, {}, rec, escaped, inp)
            ctx.count('file-case:spawn:' + sec['kind'])
            ctx.case_done(('file', text, key), True)
            cases.append((actual, {})); impls.append(impl_line(rec))
    missing = sorted(set(promised) - seen)
    if missing:
        ctx.violation('configured-process-missing', 'the file configures %r, the parsed configuration has no such process' % (missing,), {'file_case': fc})
    ctx.count('file-case:files')
    ctx.count('file-case:programs-with-own-environment:%d' % sum(1 for s_ in fc['sections'] if s_['env']))
    mcases.append((case_line(base_cfg()), ['mergeall %s %s' % (env_s(dict(fc['supenv'] or [])), ' '.join(env_s(e) for e in order) or '-')]))
    mimpls.append(['env ' + ' '.join(env_s(dict(sorted(e.items()))) for e in parsed)])


def fc_make(progs, supenv, group=None, sup_pos=0, osenv=None, osurl='unix:///tmp/s.sock', servers=None):
    fc = {'supenv': supenv, 'sections': progs, 'group': group, 'sup_pos': sup_pos, 'osenv': osenv if osenv is not None else {'PATH': '/bin', 'HOME': '/root'},
          'osurl': osurl}
    if servers is not None:
        fc['servers'] = servers
    return fc


# ---- server sections x per-program serverurl ---------------------------------------------------------------------------
def _u(file, name=None, at=0, auth=False):
    return {'kind': 'unix', 'file': file, 'name': name, 'at': at, 'auth': auth}


def _i(port, name=None, at=0, auth=False):
    return {'kind': 'inet', 'port': port, 'name': name, 'at': at, 'auth': auth}


UNIX_FILES = ['/tmp/c18/supervisor.sock', '/var/run//c18/../sup2.sock', 'run/rel.sock', '~/sv.sock', '/tmp/c18/s.sock  ', '/tmp/c18/d\u00e9.sock']
INET_PORTS = ['127.0.0.1:49001', '*:9001', '9002', ':9003', 'Example.COM:8080', 'localhost:9001', '[::1]:9004', '0.0.0.0:65535']
SERVERURLS = [None, 'AUTO', 'http://elsewhere:1234']
SERVERURLS_MORE = [None, None, 'AUTO', 'AUTO', 'auto', ' Auto', 'http://elsewhere:1234', 'unix:///else/where.sock', 'http://u:p@h:9001', '']


def fc_server_combos():
    U, I = UNIX_FILES, INET_PORTS
    combos = [[], [_u(U[0])], [_i(I[0], auth=True)],
              [_i(I[0], auth=True), _u(U[0])], [_u(U[0]), _i(I[0], auth=True)],          # both, either order in the file
              [_i(I[1]), _u(U[1], at=9)], [_u(U[2]), _i(I[2], at=9)], [_u(U[3], at=9), _i(I[3], at=9)], [_i(I[4], at=1), _u(U[4], at=2)]]
    combos += [[_i(p)] for p in I[1:]] + [[_u(f)] for f in U[1:]]
    combos += [[_u(U[0]), _u(U[1], name='second')], [_u(U[1], name='second'), _u(U[0], at=9)],
               [_i(I[0]), _i(I[1], name='all')], [_i(I[1], name='all'), _i(I[0], at=2)],
               [_i(I[0]), _u(U[0]), _i(I[4], name='pub', at=1), _u(U[2], name='b', at=9)],
               [_u(U[3], name='x'), _i(I[2], at=1), _u(U[0], at=1), _i(I[6], name='six', at=9)]]
    return combos


def fc_server_scope(ctx):
    """server sections (none / unix / inet / both in either file order / several of a family; host and path forms) x three programs with
    serverurl unset, AUTO, explicit x program kinds rotated x position of the server sections among the others"""
    kinds = ['program', 'eventlistener', 'fcgi']
    for ci, combo in enumerate(fc_server_combos()):
        for rot in range(3):
            if ctx.tier == 'quick' and ci >= 9 and rot != ci % 3:
                continue
            progs = [{'kind': kinds[(i + rot) % 3], 'name': n, 'numprocs': 2 if (i + rot + ci) % 5 == 0 else 1, 'priority': None,
                      'env': [('OWN_' + n.upper(), '1')] if (i + ci) % 3 == 0 else None, 'serverurl': SERVERURLS[(i + rot) % 3]}
                     for i, n in enumerate(['unset', 'auto', 'explicit'])]
            for p, n in zip(progs, ['unset', 'auto', 'explicit']):
                p['serverurl'] = {'unset': None, 'auto': 'AUTO', 'explicit': 'http://elsewhere:1234'}[n]
            osenv = [{'PATH': '/bin', 'HOME': '/root'}, {}, {'PATH': '/bin', 'SUPERVISOR_SERVER_URL': 'http://stale:1', 'SUPERVISOR_ENABLED': '0'}][(ci + rot) % 3]
            yield fc_make(progs, [('SUPKEY', 'sup')] if ci % 2 else None, sup_pos=ci + rot, osenv=osenv,
                          servers=[dict(sv, at=sv['at'] + rot) for sv in combo])


def fc_random_servers(rng):
    n = rng.choice([0, 1, 1, 2, 2, 2, 3, 4])
    out, at, names = [], 0, {'unix': 0, 'inet': 0}
    for _ in range(n):
        kind = rng.choice(['unix', 'inet'])
        at += rng.choice([0, 0, 1, 2])
        name = None if names[kind] == 0 and rng.random() < 0.8 else '%s%d' % (kind[0], names[kind] + 1)
        names[kind] += 1
        if kind == 'unix':
            out.append(_u(rng.choice(UNIX_FILES), name, at, rng.random() < 0.2))
        else:
            out.append(_i(rng.choice(INET_PORTS + ['h%d.example:%d' % (rng.randrange(9), rng.randrange(1, 65536))]), name, at, rng.random() < 0.5))
    return out


def fc_small_scope(ctx):
    """2 and 3 programs x own environment of each in {none, a key of its own, a key every program sets differently, a key the
    [supervisord] environment sets} x [supervisord] environment {none, set} x file order x processing order (priorities)"""
    names = ['alpha', 'beta', 'gamma']
    def choices(n):
        return [None, [('ONLY_' + n.upper(), '1')], [('SHARED', 'from_' + n)], [('SUPKEY', 'over_' + n), ('ONLY_' + n.upper(), '%(program_name)s')]]
    import itertools
    for nprog in (2, 3):
        ns = names[:nprog]
        combos = list(itertools.product(*[range(4) for _ in ns]))
        for ci, combo in enumerate(combos):
            if all(x == 0 for x in combo):
                continue
            for supenv in (None, [('SUPKEY', 'sup'), ('SHARED', 'sup')]):
                variants = [(False, False), (True, True)] if (ctx.tier == 'quick' or nprog == 3) else [(a, b) for a in (False, True) for b in (False, True)]
                if ctx.tier == 'quick' and nprog == 3 and ci % 4 != 1:
                    continue
                for rev_file, rev_prio in variants:
                    progs = [{'kind': 'program', 'name': n, 'numprocs': 1, 'env': choices(n)[combo[i]],
                              'priority': (900 - i) if rev_prio else None} for i, n in enumerate(ns)]
                    if rev_file:
                        progs.reverse()
                    yield fc_make(progs, supenv, sup_pos=ci)


FC_VALUES = ['1', 'x y', '/opt/bin:/bin', 'v-%(program_name)s', 'n%(process_num)d', 'caf\u00e9', '', 'a=b']
FC_KEYS = ['A', 'B', 'PATH', 'HOME', 'SHARED', 'SUPKEY', 'SUPERVISOR_PROCESS_NAME', 'SUPERVISOR_ENABLED', 'LANG', 'K_9']


def fc_random(rng):
    n = rng.choice([2, 2, 3, 3, 4, 5])
    names = rng.sample(['web', 'worker', 'db', 'cache', 'api', 'cron', 'mail', 'a', 'b', 'zz'], n)
    progs = []
    for nm in names:
        kind = rng.choice(['program', 'program', 'program', 'eventlistener', 'fcgi'])
        env = None
        if rng.random() < 0.75:
            keys = rng.sample(FC_KEYS, rng.randrange(1, 4))
            env = [(k, rng.choice(FC_VALUES + ['own_' + nm])) for k in keys]
        progs.append({'kind': kind, 'name': nm, 'numprocs': rng.choice([1, 1, 2]), 'env': env,
                      'priority': rng.choice([None, None, 1, 5, 999, 1000])})
    supenv = None
    if rng.random() < 0.7:
        supenv = [(k, rng.choice(['sup', 'sup 2', '/sbin'])) for k in rng.sample(FC_KEYS, rng.randrange(1, 4))]
    group = None
    plain = [p['name'] for p in progs if p['kind'] == 'program']
    if len(plain) >= 2 and rng.random() < 0.3:
        group = {'name': 'grp', 'programs': rng.sample(plain, 2)}
    osenv = rng.choice([{}, {'PATH': '/bin', 'HOME': '/root'}, {'SUPERVISOR_ENABLED': '0', 'SHARED': 'os', 'A': 'os'}])
    fc = fc_make(progs, supenv, group, sup_pos=rng.randrange(6), osenv=osenv, osurl=rng.choice([None, 'unix:///tmp/s.sock', 'http://h:9001']))
    if rng.random() < 0.6:
        # options.serverurl from the file's own server sections through the real realize(); serverurl= per program
        fc['servers'] = fc_random_servers(rng)
        for p in progs:
            p['serverurl'] = rng.choice(SERVERURLS_MORE)
        if rng.random() < 0.2:
            fc['osenv'] = dict(fc['osenv'], SUPERVISOR_SERVER_URL='http://stale:1')
        if rng.random() < 0.1:
            rng.choice(progs)['env'] = [('SUPERVISOR_SERVER_URL', 'http://from.environment:7')]
    return fc


FC_CORPUS = [
    # seeded change C18-6: alpha and gamma set different environment=, beta none, [supervisord] sets two globals
    fc_make([{'kind': 'program', 'name': 'alpha', 'numprocs': 1, 'priority': None, 'env': [('C18_ONLY_ALPHA', '1'), ('C18_SHARED', 'from_alpha')]},
             {'kind': 'program', 'name': 'beta', 'numprocs': 1, 'priority': None, 'env': None},
             {'kind': 'program', 'name': 'gamma', 'numprocs': 1, 'priority': None, 'env': [('C18_ONLY_GAMMA', '1'), ('C18_SHARED', 'from_gamma')]}],
            [('C18_GLOBAL', 'g'), ('C18_SHARED', 'from_supervisord')]),
    fc_make([{'kind': 'eventlistener', 'name': 'lst', 'numprocs': 2, 'priority': None, 'env': [('SLOT', 'n%(process_num)d')]},
             {'kind': 'fcgi', 'name': 'fc', 'numprocs': 1, 'priority': 1, 'env': [('PATH', '/fcgi/bin')]},
             {'kind': 'program', 'name': 'plain', 'numprocs': 1, 'priority': None, 'env': None}], [('PATH', '/sup/bin')]),
]


def _c18_8(servers):
    return fc_make([{'kind': 'program', 'name': 'unset', 'numprocs': 1, 'priority': None, 'env': None, 'serverurl': None},
                    {'kind': 'program', 'name': 'auto', 'numprocs': 1, 'priority': None, 'env': None, 'serverurl': 'AUTO'},
                    {'kind': 'program', 'name': 'explicit', 'numprocs': 1, 'priority': None, 'env': None, 'serverurl': 'http://elsewhere:1234'}],
                   None, osenv={'PATH': '/bin'}, servers=servers)


# seeded change C18-8 (the demo's five files): unix only, inet only, no server, inet + unix, unix + inet; programs unset / AUTO / explicit
FC_CORPUS += [_c18_8([_u('/tmp/c18seed8/supervisor.sock')]), _c18_8([_i('127.0.0.1:49001', auth=True)]), _c18_8([]),
              _c18_8([_i('127.0.0.1:49001', auth=True), _u('/tmp/c18seed8/supervisor.sock')]),
              _c18_8([_u('/tmp/c18seed8/supervisor.sock'), _i('127.0.0.1:49001', auth=True)])]


def file_cases(ctx):
    """the configured environment of every program of a file with several programs reaches ITS child and no other"""
    from supervisor import events
    cases, impls, mcases, mimpls, ucases, uimpls = [], [], [], [], [], []
    todo = list(FC_CORPUS) + list(fc_server_scope(ctx)) + list(fc_small_scope(ctx))
    for _ in range(ctx.n(60, 800)):
        todo.append(fc_random(ctx.rng))
    for fc in todo:
        file_case(ctx, fc, cases, impls, mcases, mimpls, ucases, uimpls)
        if len(cases) > 3000:
            flush(ctx, cases, impls)
    flush(ctx, cases, impls)
    ctx.correspond('child-merge-file', [('case child ' + c[len('case child '):], ops) for c, ops in mcases], mimpls)
    # options.serverurl / config.serverurl / the variable in the child's environment: the real realize() + _spawn_as_child against
    # chooseServerUrl / configuredServerUrl / childEnv of the model, for every program of every file with server sections
    if ucases:
        ctx.sample({'case': ucases[-1][0][:80] + ' ...', 'op': ucases[-1][1][0], 'impl': uimpls[-1][0]})
    ctx.correspond('child-serverurl', ucases, uimpls)
    events.clear()


def run(ctx):
    rng = ctx.rng
    cases, impls = [], []
    # 1. corpus
    for over, named in CORPUS:
        c = base_cfg(); c.update(over)
        faults = resolve_named_faults(c, named)
        if faults is None:
            # the named call no longer occurs on this path (the code changed): run what can be resolved;
            # the exhaustive enumeration below covers the new paths
            ctx.count('corpus-entry-unresolvable')
            faults = resolve_named_faults(c, named[:-1]) or {}
        one(ctx, c, faults, cases, impls)
    ctx.sample({'case': case_line(cases[0][0]), 'op': op_line(cases[0][1]), 'impl': impls[0]})
    ctx.sample({'case': case_line(cases[3][0]), 'op': op_line(cases[3][1]), 'impl': impls[3]})
    flush(ctx, cases, impls)
    # 2. structured product, exhaustive single faults
    for c in structured_cfgs():
        single_faults(ctx, c, cases, impls)
    flush(ctx, cases, impls)
    # 3. failing-write paths (faults that only exist after a first failure): pairs and triples
    sc = structured_cfgs()
    picks = [sc[i] for i in ((11, 27, 63) if ctx.tier == 'quick' else range(0, len(sc), 3))]
    for c in picks:
        failure_path_pairs(ctx, c, cases, impls)
    flush(ctx, cases, impls)
    # 4. random configurations: exhaustive single faults with random errnos, plus sampled pairs
    for _ in range(ctx.n(120, 2000)):
        c = gen_cfg(rng)
        if rng.random() < 0.05:
            c['minfds'] = 1024
        classes = [('O', rng.choice(ERRNOS)), ('K',), ('X',)]
        rec = single_faults(ctx, c, cases, impls, classes)
        n = len(rec.log)
        for _ in range(6):
            i, j = sorted(rng.sample(range(max(n - 1, 2)), 2)) if n > 2 else (0, 1)
            fs = {i: rng.choice(classes), j: rng.choice(classes)}
            if rng.random() < 0.3:
                fs[rng.randrange(n + 3)] = rng.choice(classes)
            one(ctx, c, fs, cases, impls)
        if len(cases) > 4000:
            flush(ctx, cases, impls)
    flush(ctx, cases, impls)
    merge_cases(ctx)
    file_cases(ctx)


def replay(ctx, data):
    inp = data['input']
    if 'file_case' in inp:
        cases, impls, mcases, mimpls = [], [], [], []
        fc = inp['file_case']
        fc['supenv'] = [tuple(x) for x in fc['supenv']] if fc['supenv'] else None
        for sec in fc['sections']:
            sec['env'] = [tuple(x) for x in sec['env']] if sec['env'] is not None else None
        ucases, uimpls = [], []
        file_case(ctx, fc, cases, impls, mcases, mimpls, ucases, uimpls)
        flush(ctx, cases, impls)
        ctx.correspond('child-serverurl', ucases, uimpls)
        return
    if 'config' not in inp:
        return
    c = inp['config']
    c['grdb'] = [(g, list(ms)) for g, ms in c['grdb']]
    faults = {int(k): tuple(v) for k, v in inp['faults'].items()}
    cases, impls = [], []
    one(ctx, c, faults, cases, impls)
    flush(ctx, cases, impls)
