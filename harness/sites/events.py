"""supervisor.events: every EventTypes member with its ancestor-or-self chain among the members (this is the
subscription semantics of notify(): isinstance), its abstract flag (class docstring/comment convention is not
machine readable, so: has registered proper descendants), and the registry order.

Independent of the code: the *documented* type hierarchy.  docs/events.rst has one "``X`` Event Type" section per
event type with a line "*Subtype Of*: ``Y``" (or N/A).  That table is emitted as `documented`; Props/C09 proves that
the registered types and their ancestor chains are exactly the documented ones, so a class that silently gains or
loses a base class (and with it subscribers) breaks a proof, and the monitors decide "subscribed" from this table
(`documented_hierarchy`), never from issubclass."""
import os, re
LEAN_MODULE = 'Events'
IMPORTS = []
OPENS = []

_HEAD = re.compile(r'^``([A-Z][A-Z_0-9]*)`` Event Type\s*$')
_SUB = re.compile(r'^\*Subtype Of\*:\s*(?:``([A-Z][A-Z_0-9]*)``|N/A)\s*$')


def documented_hierarchy(repo=None):
    """[(type name, documented parent name or None)] in document order, read from docs/events.rst of the tree under
    verification.  Raises ValueError when a type section has no (or more than one) *Subtype Of* line."""
    if repo is None:
        repo = os.environ.get('VERIF_REPO', '/repo')
    lines = open(os.path.join(repo, 'docs', 'events.rst'), encoding='utf-8').read().split('\n')
    res, cur = [], None
    for i, l in enumerate(lines):
        m = _HEAD.match(l)
        if m and i + 1 < len(lines) and set(lines[i + 1].strip()) == {'~'}:
            if cur is not None and len(cur[1]) != 1:
                raise ValueError('docs/events.rst: section %s has %d "Subtype Of" lines' % (cur[0], len(cur[1])))
            cur = (m.group(1), [])
            res.append(cur)
            continue
        m = _SUB.match(l.strip())
        if m and cur is not None:
            cur[1].append(m.group(1))
    if cur is not None and len(cur[1]) != 1:
        raise ValueError('docs/events.rst: section %s has %d "Subtype Of" lines' % (cur[0], len(cur[1])))
    if not res:
        raise ValueError('docs/events.rst: no event type sections found')
    return [(n, ps[0]) for n, ps in res]


def documented_chain(table, name):
    """name and its documented supertypes, nearest first (None when the name is not documented)"""
    d = dict(table)
    if name not in d:
        return None
    out = []
    while name is not None and name not in out:
        out.append(name)
        name = d.get(name)
    return out


def TABLES():
    from supervisor import events
    ET = events.EventTypes
    members = [(k, v) for k, v in vars(ET).items() if not k.startswith('_') and isinstance(v, type)]
    out = ['-- supervisor/events.py EventTypes (registry order)']
    out.append('inductive Cls where')
    for k, v in members:
        out.append('  | %s' % k)
    out.append('deriving DecidableEq, Repr, Inhabited')
    out.append('def Cls.all : List Cls := [%s]' % ', '.join('.' + k for k, v in members))
    out.append('def Cls.name : Cls → String')
    for k, v in members:
        out.append('  | .%s => "%s"' % (k, k))
    out.append('-- issubclass(member, other member): ancestor-or-self, nearest first')
    out.append('def Cls.ancestors : Cls → List Cls')
    for k, v in members:
        anc = [k2 for c in v.__mro__ for k2, v2 in members if v2 is c]
        out.append('  | .%s => [%s]' % (k, ', '.join('.' + a for a in anc)))
    out.append('-- has a registered proper subclass (the "abstract" types of docs/events.rst)')
    out.append('def Cls.abstract : Cls → Bool')
    for k, v in members:
        ab = any(v2 is not v and issubclass(v2, v) for k2, v2 in members)
        out.append('  | .%s => %s' % (k, 'true' if ab else 'false'))
    out.append('-- EventRejectedEvent is deliberately not an Event: isinstance(EventRejectedEvent(...), Event)')
    out.append('def rejectedIsEvent : Bool := %s' % ('true' if issubclass(events.EventRejectedEvent, events.Event) else 'false'))
    doc = documented_hierarchy()
    out.append('-- docs/events.rst: every "``X`` Event Type" section with its "*Subtype Of*" line (document order)')
    out.append('def documented : List (String × Option String) := [%s]' % ', '.join(
        '("%s", %s)' % (n, 'some "%s"' % p if p else 'none') for n, p in doc))
    return out
