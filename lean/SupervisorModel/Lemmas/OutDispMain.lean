import SupervisorModel.Model.OutDisp
/-
  The debug-level copy of child output into supervisord's own log (`POutputDispatcher._log`,
  `if self.log_to_mainlog:`) never lets an exception out: every strict decode of the chunk sits
  in a `try` whose handlers (regenerated: `Sv.Gen.OutDisp.logDecodeSites`) catch
  UnicodeDecodeError.  Hence `mainCopy` is the identity and the daemon's log level is not a
  dimension of anything the C07/C08/C11 theorems observe.
-/
set_option linter.unusedSimpArgs false
namespace Sv.OutDisp
open Sv.Gen.OutDisp

/-- every strict bytes→text conversion in `_log` is guarded against UnicodeDecodeError -/
theorem log_decode_sites_guarded : logDecodeSites.all (fun site => Py.catchesDecodeError site.2) = true := by decide

theorem mainCopyWith_id (sites : List (String × List String))
    (h : sites.all (fun site => Py.catchesDecodeError site.2) = true) (c : Cfg) (m : Bool) (d : Bytes) (s : S) :
    mainCopyWith sites c m d s = s := by
  have hall : sites.all (fun site => Py.utf8Valid d || Py.catchesDecodeError site.2) = true := by
    rw [List.all_eq_true] at h ⊢
    intro x hx
    simp [h x hx]
  simp only [mainCopyWith, guard, hall, if_true]
  split <;> (try split) <;> rfl

theorem mainCopy_id (c : Cfg) (m : Bool) (d : Bytes) (s : S) : mainCopy c m d s = s :=
  mainCopyWith_id _ log_decode_sites_guarded c m d s

end Sv.OutDisp
