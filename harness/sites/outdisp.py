"""POutputDispatcher.{record_output, toggle_capturemode, _log, handle_read_event}, stripEscapes
(supervisor/dispatchers.py), find_prefix_at_end (supervisor/medusa/asynchat_25.py), BoundIO.write
(supervisor/loggers.py): capture tokens and ANSI tables read from the imported modules, and every guard /
slice / arithmetic expression of the scanner, the bounded buffer and the escape stripper.

Python byte-string operations that the shared translator does not know (negative slice bounds,
`x.endswith(y)`, `x.find(y, i)`) are translated by the Tr subclass below into the Python-faithful
definitions of lean/SupervisorModel/Model/OutDispPy.lean (namespace Sv.Py)."""
import ast, sys
# when extract.py runs as a script it is the module `__main__`; use that very module's classes so that
# the Untranslatable raised by the base translator is the one its `emit` catches
_ex = sys.modules.get('__main__')
if not hasattr(_ex, 'site_defs'):
    import extract as _ex
Site, Tr, Untranslatable, lean_bytes = _ex.Site, _ex.Tr, _ex.Untranslatable, _ex.lean_bytes

LEAN_MODULE = 'OutDisp'
IMPORTS = ['SupervisorModel.Basic.Bytes', 'SupervisorModel.Model.OutDispPy']
OPENS = []


class PyTr(Tr):
    def typ(self, e):
        if isinstance(e, ast.Call) and isinstance(e.func, ast.Attribute):
            if e.func.attr == 'endswith': return 'bool'
            if e.func.attr == 'find': return 'int'
        return Tr.typ(self, e)

    def expr(self, e):
        s = ast.unparse(e)
        if s in self.site.vars or s in self.site.consts:
            return Tr.expr(self, e)
        if isinstance(e, ast.Subscript) and isinstance(e.slice, ast.Slice) and e.slice.step is None \
                and self.typ(e.value) == 'bytes':
            v = self.expr(e.value)
            lo, hi = e.slice.lower, e.slice.upper
            if lo is not None and hi is None:
                return '(Sv.Py.sliceFrom %s %s)' % (v, self.expr(lo))
            if lo is None and hi is not None:
                return '(Sv.Py.sliceTo %s %s)' % (v, self.expr(hi))
            if lo is not None and hi is not None:
                return '(Sv.Py.slice %s %s %s)' % (v, self.expr(lo), self.expr(hi))
        if isinstance(e, ast.Call) and isinstance(e.func, ast.Attribute) and not e.keywords \
                and self.typ(e.func.value) == 'bytes':
            recv = self.expr(e.func.value)
            if e.func.attr == 'endswith' and len(e.args) == 1 and self.typ(e.args[0]) == 'bytes':
                return '(Sv.Py.endswith %s %s)' % (recv, self.expr(e.args[0]))
            if e.func.attr == 'find' and len(e.args) == 2 and self.typ(e.args[0]) == 'bytes':
                return '(Sv.Py.find %s %s %s)' % (recv, self.expr(e.args[0]), self.expr(e.args[1]))
        return Tr.expr(self, e)


class PySite(Site):
    tr_class = PyTr


def TABLES():
    from supervisor import events, dispatchers
    out = []
    C = events.ProcessCommunicationEvent
    out.append('-- supervisor/events.py ProcessCommunicationEvent capture tokens')
    out.append('def BEGIN_TOKEN : List UInt8 := %s' % lean_bytes(C.BEGIN_TOKEN))
    out.append('def END_TOKEN : List UInt8 := %s' % lean_bytes(C.END_TOKEN))
    for cls in (events.ProcessCommunicationStdoutEvent, events.ProcessCommunicationStderrEvent):
        out.append('def %s_BEGIN : List UInt8 := %s' % (cls.channel, lean_bytes(cls.BEGIN_TOKEN)))
        out.append('def %s_END : List UInt8 := %s' % (cls.channel, lean_bytes(cls.END_TOKEN)))
    out.append('-- supervisor/dispatchers.py ANSI tables')
    out.append('def ANSI_ESCAPE_BEGIN : List UInt8 := %s' % lean_bytes(dispatchers.ANSI_ESCAPE_BEGIN))
    out.append('def ANSI_TERMINATORS : List (List UInt8) := [%s]' % ', '.join(
        lean_bytes(t) for t in dispatchers.ANSI_TERMINATORS))
    # which event classes make_dispatchers hands to the two output dispatchers, and the PROCESS_LOG
    # classes _log uses, by channel name (read from a probe instance, no pipes involved)
    out.append('-- channel names of the event classes used for the two output channels')
    out.append('def stdoutChannel : List UInt8 := %s' % lean_bytes(events.ProcessLogStdoutEvent.channel.encode()))
    out.append('def stderrChannel : List UInt8 := %s' % lean_bytes(events.ProcessLogStderrEvent.channel.encode()))
    out.append('def commStdoutChannel : List UInt8 := %s' % lean_bytes(events.ProcessCommunicationStdoutEvent.channel.encode()))
    out.append('def commStderrChannel : List UInt8 := %s' % lean_bytes(events.ProcessCommunicationStderrEvent.channel.encode()))
    out += _read_size()
    out += _decode_sites()
    return out


def _read_size():
    """ServerOptions.readfd: the size handed to os.read (finish() -> drain() reads every dispatcher once, so this bounds what
    can be recovered from a pipe at reap time)"""
    out = ['-- supervisor/options.py ServerOptions.readfd: the size argument of its os.read call']
    try:
        f = _func('supervisor/options.py', 'ServerOptions.readfd')
        calls = [n for n in ast.walk(f) if isinstance(n, ast.Call) and ast.unparse(n.func) == 'os.read']
        if len(calls) != 1 or len(calls[0].args) != 2:
            raise Untranslatable('%d os.read calls' % len(calls))
        v = eval(compile(ast.Expression(calls[0].args[1]), '<readfd>', 'eval'), {'__builtins__': {}}, {})
        if not isinstance(v, int) or isinstance(v, bool) or v < 0:
            raise Untranslatable('size %r' % (v,))
        out.append('def readfdSize : Nat := %d' % v)
    except Exception as e:
        out.append('-- readfdSize  UNTRANSLATED (%s)' % e)
    return out


def _handler_names(h):
    if h.type is None:
        return ['BaseException']
    if isinstance(h.type, ast.Tuple):
        return [ast.unparse(x).split('.')[-1] for x in h.type.elts]
    return [ast.unparse(h.type).split('.')[-1]]


def decode_sites(func):
    """every strict conversion of bytes to text in `func` -- x.decode(...) without errors='replace'/'ignore', as_string(x),
    str(x, enc) -- with the exception classes of the handlers of the try statements whose *body* encloses it (innermost first)"""
    found = []
    def walk(node, handlers):
        if isinstance(node, ast.Try):
            mine = [n for h in node.handlers for n in _handler_names(h)]
            for st in node.body:
                walk(st, mine + handlers)
            for part in [h.body for h in node.handlers] + [node.orelse, node.finalbody]:
                for st in part:
                    walk(st, handlers)
            return
        if isinstance(node, ast.Call):
            f = node.func
            lenient = any(isinstance(a, ast.Constant) and a.value in ('replace', 'ignore', 'backslashreplace', 'surrogateescape')
                          for a in list(node.args[1:]) + [k.value for k in node.keywords])
            is_dec = (isinstance(f, ast.Attribute) and f.attr == 'decode') or \
                     (isinstance(f, ast.Name) and f.id == 'as_string') or \
                     (isinstance(f, ast.Name) and f.id == 'str' and len(node.args) >= 2)
            arg = f.value if isinstance(f, ast.Attribute) else (node.args[0] if node.args else None)
            static_text = arg is None or (isinstance(arg, ast.Constant) and isinstance(arg.value, str)) or \
                ast.unparse(arg).endswith('config.name')
            if is_dec and not lenient and not static_text:
                found.append((ast.unparse(node), handlers))
        for ch in ast.iter_child_nodes(node):
            walk(ch, handlers)
    for st in func.body:
        walk(st, [])
    return found


def _decode_sites():
    out = ['-- POutputDispatcher._log: strict conversions of child output to text, each with the exception classes handled around it']
    try:
        f = _func('supervisor/dispatchers.py', 'POutputDispatcher._log')
        sites = decode_sites(f)
        out.append('def logDecodeSites : List (String × List String) := [%s]' % ', '.join(
            '(%s, [%s])' % (_lean_str(src), ', '.join(_lean_str(h) for h in hs)) for src, hs in sites))
    except Exception as e:
        out.append('-- logDecodeSites  UNTRANSLATED (%s)' % e)
    return out


def _lean_str(t):
    return '"' + t.replace('\\', '\\\\').replace('"', '\\"').replace('\n', '\\n') + '"'


def _func(file, qual):
    import os
    tree = ast.parse(open(os.path.join(_ex.REPO, file)).read())
    return _ex.find_func(tree, qual)


def _args(f, skip_self=True):
    a = [x.arg for x in f.args.args]
    return a[1:] if skip_self and a and a[0] == 'self' else a


def _roles_record_output():
    """local names of record_output by the role they play (so that renaming a local is harmless)"""
    r = {'eof': 'eof', 'data': 'data', 'after': 'after', 'index': 'index', 'token': 'token', 'tokenlen': 'tokenlen'}
    try:
        f = _func('supervisor/dispatchers.py', 'POutputDispatcher.record_output')
        a = _args(f)
        if a: r['eof'] = a[0]
        for n in ast.walk(f):
            if not isinstance(n, ast.Assign) or len(n.targets) != 1:
                continue
            t, v = n.targets[0], n.value
            if isinstance(v, ast.Call) and isinstance(v.func, ast.Attribute) and v.func.attr == 'split' \
                    and isinstance(t, ast.Tuple) and len(t.elts) == 2 and isinstance(v.func.value, ast.Name):
                r['after'] = t.elts[1].id; r['data'] = v.func.value.id
            if isinstance(v, ast.Call) and isinstance(v.func, ast.Name) and v.func.id == 'find_prefix_at_end' and isinstance(t, ast.Name):
                r['index'] = t.id
            if isinstance(t, ast.Tuple) and len(t.elts) == 2 and ast.unparse(v) == 'self.endtoken_data':
                r['token'], r['tokenlen'] = t.elts[0].id, t.elts[1].id
    except Exception:
        pass
    return r


def _first_targets(file, qual, k):
    try:
        f = _func(file, qual)
        names = [st.targets[0].id for st in f.body if isinstance(st, ast.Assign) and isinstance(st.targets[0], ast.Name)]
        return _args(f), names[:k]
    except Exception:
        return [], []


_r = _roles_record_output()
_ro_params = '(capMax : Int) (mode eof : Bool) (buf btok etok data after : List UInt8) (index : Int)'
_ro_vars = {
    # `self.capturelog is None`: the capture logger exists iff <channel>_capture_maxbytes is non-zero
    # (POutputDispatcher._init_capturelog); the model encodes "no capture logger" as capMax = 0
    'self.capturelog': ('capMax', 'int'),
    'self.capturemode': ('mode', 'bool'),
    _r['eof']: ('eof', 'bool'),
    'self.output_buffer': ('buf', 'bytes'),
    'self.endtoken_data': ('etok', 'bytes'),
    'self.begintoken_data': ('btok', 'bytes'),
    _r['token']: ('(if mode then etok else btok)', 'bytes'),
    _r['tokenlen']: ('((if mode then etok else btok).length : Int)', 'int'),
    _r['data']: ('data', 'bytes'),
    _r['after']: ('after', 'bytes'),
    _r['index']: ('index', 'int'),
}
_log_arg = (_first_targets('supervisor/dispatchers.py', 'POutputDispatcher._log', 0)[0] or ['data'])[0]
_hre_data = (_first_targets('supervisor/dispatchers.py', 'POutputDispatcher.handle_read_event', 1)[1] or ['data'])[0]
_fp_args, _fp_loc = _first_targets('supervisor/medusa/asynchat_25.py', 'find_prefix_at_end', 1)
_fp_args = _fp_args if len(_fp_args) == 2 else ['haystack', 'needle']
_fp_l = (_fp_loc or ['l'])[0]
_bw_arg = (_first_targets('supervisor/loggers.py', 'BoundIO.write', 0)[0] or ['b'])[0]
_st_args, _st_loc = _first_targets('supervisor/dispatchers.py', 'stripEscapes', 3)
_st_s = (_st_args or ['s'])[0]
_st_loc = _st_loc if len(_st_loc) == 3 else ['result', 'show', 'i']

SITES = [
    PySite('supervisor/dispatchers.py', 'POutputDispatcher.record_output', 'record_output', _ro_params, _ro_vars),
    PySite('supervisor/dispatchers.py', 'POutputDispatcher.toggle_capturemode', 'toggle',
           '(capMax : Int) (mode : Bool)',
           {'self.capturelog': ('capMax', 'int'), 'self.capturemode': ('mode', 'bool')}),
    PySite('supervisor/dispatchers.py', 'POutputDispatcher._log', 'log',
           '(data : List UInt8) (strip childlog mainlog mode isStdout outEv errEv : Bool)',
           {_log_arg: ('data', 'bytes'), 'config.options.strip_ansi': ('strip', 'bool'),
            'self.childlog': ('childlog', 'bool'), 'self.log_to_mainlog': ('mainlog', 'bool'),
            'self.capturemode': ('mode', 'bool'), "self.channel == 'stdout'": ('isStdout', 'bool'),
            'self.stdout_events_enabled': ('outEv', 'bool'), 'self.stderr_events_enabled': ('errEv', 'bool')}),
    PySite('supervisor/dispatchers.py', 'POutputDispatcher.handle_read_event', 'hre',
           '(buf data : List UInt8)',
           {'self.output_buffer': ('buf', 'bytes'), _hre_data: ('data', 'bytes')},
           calls=('self.record_output',)),
    PySite('supervisor/medusa/asynchat_25.py', 'find_prefix_at_end', 'fpae',
           '(haystack needle : List UInt8) (l : Int)',
           {_fp_args[0]: ('haystack', 'bytes'), _fp_args[1]: ('needle', 'bytes'), _fp_l: ('l', 'int')}),
    PySite('supervisor/loggers.py', 'BoundIO.write', 'bound_write',
           '(buf b : List UInt8) (maxbytes : Int)',
           {'self.buf': ('buf', 'bytes'), _bw_arg: ('b', 'bytes'), 'self.maxbytes': ('maxbytes', 'int')}),
    PySite('supervisor/dispatchers.py', 'stripEscapes', 'strip',
           '(s result : List UInt8) (sh i : Int)',
           {_st_s: ('s', 'bytes'), _st_loc[0]: ('result', 'bytes'), _st_loc[1]: ('sh', 'int'), _st_loc[2]: ('i', 'int')},
           consts={'ANSI_TERMINATORS': 'ANSI_TERMINATORS', 'ANSI_ESCAPE_BEGIN': 'ANSI_ESCAPE_BEGIN'},
           const_types={'ANSI_ESCAPE_BEGIN': 'bytes', 'ANSI_TERMINATORS': 'list'}),
    # wiring of the output channels: which pipes exist, which dispatchers are made, what the child's 1 and 2 are
    PySite('supervisor/options.py', 'ProcessConfig.make_dispatchers', 'mkdisp',
           '(redirect : Bool) (stdoutFd stderrFd stdinFd : Option Nat)',
           {'self.redirect_stderr': ('redirect', 'bool'), 'stdout_fd': ('stdoutFd', 'opt'),
            'stderr_fd': ('stderrFd', 'opt'), 'stdin_fd': ('stdinFd', 'opt')}),
    PySite('supervisor/options.py', 'ServerOptions.make_pipes', 'mkpipes',
           '(useStderr : Bool)', {'stderr': ('useStderr', 'bool')}),
    PySite('supervisor/process.py', 'Subprocess._prepare_child_fds', 'childfds',
           '(redirect : Bool) (childStdin childStdout childStderr : Int)',
           {'self.config.redirect_stderr': ('redirect', 'bool'), "self.pipes['child_stdin']": ('childStdin', 'int'),
            "self.pipes['child_stdout']": ('childStdout', 'int'), "self.pipes['child_stderr']": ('childStderr', 'int')},
           calls=('options.dup2',)),
]
