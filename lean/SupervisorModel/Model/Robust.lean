import SupervisorModel.Basic.Bytes
import SupervisorModel.Generated.Robust
/-
  Exception containment on the spawn path (C06): `ServerOptions.make_pipes` (supervisor/options.py)
  interpreted from its regenerated statement table over a kernel in which any single `pipe()` /
  `fcntl()` call may fail with OSError, and in which — as in the real `os` / `fcntl` modules —
  a `None` descriptor is a TypeError, not an OSError (`os.close(None)`, `fcntl.fcntl(None, …)`).

  Observable result: what leaves `make_pipes` (the dict, an OSError, or another exception class)
  and which descriptors it opened are still open.  `Subprocess.spawn` handles only the classes in
  `spawnMakeDispatchersCatches`; anything else travels through `transition()` to `runforever()`.
-/
namespace Sv.Robust
open Sv.Gen.Robust

/-- exception classes that matter here -/
inductive Exc
  | oserror       -- the injected failure of pipe()/fcntl(), re-raised by the handler
  | typeerror     -- os.close(None) / fcntl.fcntl(None, …)
deriving DecidableEq, Repr

/-- does an `except` clause listing `classes` catch an OSError (IOError/EnvironmentError are aliases of OSError in Python 3)? -/
def catchesOSError (classes : List String) : Bool :=
  classes.any fun c => ["OSError", "IOError", "EnvironmentError", "Exception", "BaseException"].contains c

/-- … a TypeError? -/
def catchesTypeError (classes : List String) : Bool :=
  classes.any fun c => ["TypeError", "Exception", "BaseException"].contains c

/-- … a UnicodeDecodeError (UnicodeDecodeError < UnicodeError < ValueError < Exception)? -/
def catchesDecodeError (classes : List String) : Bool :=
  classes.any fun c => ["UnicodeDecodeError", "UnicodeError", "ValueError", "Exception", "BaseException"].contains c

def catches (classes : List String) : Exc → Bool
  | .oserror => catchesOSError classes
  | .typeerror => catchesTypeError classes

/-- the kernel as `make_pipes` sees it -/
structure K where
  next : Nat                 -- the next descriptor number handed out (nothing is closed inside the try body)
  opened : List Nat := []    -- descriptors opened by this call and still open
  calls : Nat := 0           -- fallible system calls (pipe, fcntl) made so far
  failAt : Option Nat        -- the call with this index fails with OSError
  nonblock : List Nat := []  -- descriptors on which the whole F_GETFL / F_SETFL sequence succeeded
deriving DecidableEq, Repr

structure MP where
  pipes : List (String × Option Nat)
  k : K
  exc : Option Exc := none
  returned : Bool := false
deriving DecidableEq, Repr

def MP.get (s : MP) (key : String) : Option Nat := (s.pipes.lookup key).join

def MP.set (s : MP) (key : String) (fd : Nat) : MP :=
  { s with pipes := s.pipes.map fun kv => if kv.1 == key then (kv.1, some fd) else kv }

/-- one fallible system call: fails iff its index is `failAt` -/
def sysCall (s : MP) : MP :=
  if s.k.failAt == some s.k.calls then { s with k := { s.k with calls := s.k.calls + 1 }, exc := some .oserror }
  else { s with k := { s.k with calls := s.k.calls + 1 } }

/-- `a, b = os.pipe(); pipes[ka], pipes[kb] = a, b` -/
def doPipe (ka kb : String) (s : MP) : MP :=
  let s1 := sysCall s
  if s1.exc.isSome then s1 else
  let r := s1.k.next
  let w := s1.k.next + 1
  ({ s1 with k := { s1.k with next := s1.k.next + 2, opened := s1.k.opened ++ [r, w] } }.set ka r).set kb w

/-- `for fd in (pipes[k] …): [if fd is not None:] fcntl(fd, F_GETFL) …; fcntl(fd, F_SETFL, …)` -/
def doNonblock (guarded : Bool) (ncalls : Nat) : List String → MP → MP
  | [], s => s
  | key :: rest, s =>
    if s.exc.isSome then s else
    match s.get key with
    | none => if guarded then doNonblock guarded ncalls rest s else { s with exc := some .typeerror }   -- fcntl.fcntl(None, …)
    | some fd =>
      let s1 := (List.range ncalls).foldl (fun t _ => if t.exc.isSome then t else sysCall t) s
      let s2 := if s1.exc.isSome then s1 else { s1 with k := { s1.k with nonblock := s1.k.nonblock ++ [fd] } }
      doNonblock guarded ncalls rest s2

/-- one statement of the try body -/
def step (useStderr : Bool) (s : MP) (st : String × Nat × List String) : MP :=
  if s.exc.isSome || s.returned then s else
  match st with
  | ("pipe", _, [a, b]) => doPipe a b s
  | ("pipe-if-stderr", _, [a, b]) => if useStderr then doPipe a b s else s
  | ("nonblock", n, keys) => doNonblock true n keys s
  | ("nonblock-unguarded", n, keys) => doNonblock false n keys s
  | ("return", _, _) => { s with returned := true }
  | _ => s          -- `other`: an opaque statement that neither opens descriptors nor fails

/-- `options.close_fd(fd)`: `os.close(fd)` inside `try … except <closeFdCatches>: pass`; closing `None` is a TypeError -/
def closeFd (fd : Option Nat) (s : MP) : MP :=
  if s.exc.isSome then s else
  match fd with
  | none => if catchesTypeError closeFdCatches then s else { s with exc := some .typeerror }
  | some n => { s with k := { s.k with opened := s.k.opened.filter (· != n) } }

/-- the handler: `for fd in pipes.values(): [if fd is not None:] self.close_fd(fd)`, then `raise` -/
def cleanup (e : Exc) (s : MP) : MP :=
  let s0 := { s with exc := none }
  let s1 := s0.pipes.foldl (fun (t : MP) (kv : String × Option Nat) =>
    if kv.2.isNone && mkPipesCleanupSkipsNone then t else closeFd kv.2 t) s0
  match s1.exc with
  | some e' => { s1 with exc := some e' }                 -- an exception inside the handler replaces the original one
  | none => if mkPipesCleanupReraises then { s1 with exc := some e } else s1

inductive Res
  | ok (pipes : List (String × Option Nat))
  | raised (e : Exc)
  | fellOff                 -- the function ended without `return` (returns None)
deriving DecidableEq, Repr

structure Outcome where
  res : Res
  stillOpen : List Nat      -- descriptors opened by the call that are open afterwards
  calls : Nat
  nonblock : List Nat       -- descriptors switched to non-blocking mode
deriving DecidableEq, Repr

/-- `options.make_pipes(stderr)` with the `failAt`-th fallible call failing; descriptors are numbered
    0, 1, 2 … in the order the kernel hands them out (the driver adds the first free number) -/
def makePipes (useStderr : Bool) (failAt : Option Nat) : Outcome :=
  let s0 : MP := { pipes := mkPipesKeys.map fun k => (k, none), k := { next := 0, failAt := failAt } }
  let s1 := mkPipesSteps.foldl (step useStderr) s0
  let s2 := match s1.exc with
    | some e => if catches mkPipesHandlerCatches e then cleanup e s1 else s1
    | none => s1
  { res := (match s2.exc with
            | some e => .raised e
            | none => if s2.returned then .ok s2.pipes else .fellOff),
    stillOpen := s2.k.opened, calls := s2.k.calls, nonblock := s2.k.nonblock }

/-- what `Subprocess.spawn` does with the outcome: `false` = the exception is not one of the handled
    classes and leaves `spawn()` (→ `transition()` → `runforever()`) -/
def spawnSurvives (o : Outcome) : Bool :=
  match o.res with
  | .ok _ => true
  | .raised e => catches spawnMakeDispatchersCatches e
  | .fellOff => false       -- `self.dispatchers, self.pipes = None` is a TypeError in spawn()

/-! ### line protocol: `case mkpipes stderr=<0|1> base=<n>`; op `fail <i>` / `fail -` -/

def showFd (base : Nat) : Option Nat → String
  | none => "-"
  | some n => toString (base + n)

def showOutcome (base : Nat) (o : Outcome) : String :=
  let r := match o.res with
    | .ok p => "ok " ++ " ".intercalate (p.map fun (kv : String × Option Nat) => kv.1 ++ "=" ++ showFd base kv.2)
    | .raised .oserror => "raised:OSError"
    | .raised .typeerror => "raised:TypeError"
    | .fellOff => "ok None"
  let nb := match o.res with
    | .ok _ => " ".intercalate (o.nonblock.map fun n => toString (base + n))
    | _ => "-"
  s!"{r} | open:{o.stillOpen.length} | calls:{o.calls} | nonblocking:{nb} | spawn:{if spawnSurvives o then "handled" else "escapes"}"

def runCase (cfg : List String) (ops : List String) : List String :=
  match kvBool cfg "stderr", kvNat cfg "base" with
  | some us, some base => ops.map fun l =>
    match words l with
    | ["fail", "-"] => showOutcome base (makePipes us none)
    | ["fail", i] => (match i.toNat? with
                      | some n => showOutcome base (makePipes us (some n))
                      | none => "bad-op")
    | _ => "bad-op"
  | _, _ => ops.map fun _ => "bad-config"

end Sv.Robust
