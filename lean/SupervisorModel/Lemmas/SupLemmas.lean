import SupervisorModel.Model.Sup
import SupervisorModel.Lemmas.ProcFork
/-
  Frame lemmas for the daemon model: updating one process leaves the others alone; the reap loop.
-/
set_option linter.unusedSimpArgs false
set_option linter.unusedVariables false
namespace Sv.Sup
open Sv Sv.Proc Sv.Gen.Proc Sv.Gen.Sup

theorem upd_name (e : PE) (n : Nat) (p : Proc) : (if (e.name == n) = true then { e with p := p } else e).name = e.name := by
  split <;> rfl

theorem findPE_setProc_other (ps : List PE) (n m : Nat) (p : Proc) (h : m ≠ n) :
    findPE (setProc ps n p) m = findPE ps m := by
  induction ps with
  | nil => rfl
  | cons e es ih =>
    simp only [findPE, setProc, List.map_cons, List.find?_cons] at ih ⊢
    rw [upd_name]
    cases hm : (e.name == m)
    · exact ih
    · have hne : (e.name == n) = false := by
        simp only [beq_iff_eq] at hm; simp only [beq_eq_false_iff_ne, ne_eq]; omega
      simp [hne]

theorem findPE_setProc_same (ps : List PE) (n : Nat) (p : Proc) (e : PE) (h : findPE ps n = some e) :
    findPE (setProc ps n p) n = some { e with p := p } := by
  induction ps with
  | nil => simp [findPE] at h
  | cons x xs ih =>
    simp only [findPE, setProc, List.map_cons, List.find?_cons] at ih h ⊢
    rw [upd_name]
    cases hx : (x.name == n)
    · simp only [hx] at h
      exact ih h
    · simp only [hx] at h ⊢
      simp only [Option.some.injEq] at h
      subst h
      simp

theorem setProc_names (ps : List PE) (n : Nat) (p : Proc) : (setProc ps n p).map (·.name) = ps.map (·.name) := by
  simp only [setProc, List.map_map]
  apply List.map_congr_left
  intro e _
  simp only [Function.comp]
  split <;> rfl

/-- the processes of a state other than `n` -/
def othersSame (n : Nat) (s s' : Sup) : Prop := ∀ m, m ≠ n → findPE s'.procs m = findPE s.procs m

theorem onProc_others (n : Nat) (f : Cfg → Proc.S → Proc.S) (s : Sup) : othersSame n s (onProc n f s) := by
  intro m hm
  unfold onProc sguard
  split
  · rfl
  · dsimp only
    split
    · rfl
    · rename_i e he
      have hfold : ∀ (l : List Out) (acc : Sup), (l.foldl (regFork n e.gen) acc).procs = acc.procs := by
        intro l
        induction l with
        | nil => intro acc; rfl
        | cons o os ih => intro acc; simp only [List.foldl_cons]; rw [ih]; cases o <;> rfl
      split
      all_goals ((try dsimp only); rw [hfold]; exact findPE_setProc_other _ _ _ _ hm)

/-- **An unknown pid returned by wait changes no process** and leaves `pidhistory` alone -/
theorem reap_unknown_pid (k : Int) (pid es : Int) (s : Sup) (hk : k ≠ 100) (hp : pid ≠ 0)
    (hun : s.pidhist.lookup pid = none) (he : s.err = none) (hx : s.exited = false) :
    (reapLoop k [(pid, es)] s).procs = s.procs ∧ (reapLoop k [(pid, es)] s).pidhist = s.pidhist ∧
    (reapLoop k [(pid, es)] s).outs = s.outs ++ [.reapedUnknown pid] := by
  simp [reapLoop, sguard, semit, he, hx, reap_g0, reap_g1, hk, hp, hun]

/-- **At most 100 children per `reap()` invocation**: whatever `waitpid` would go on returning, the
    101st answer and everything after it is not consumed by this invocation -/
theorem reap_bound (ws : List (Int × Int)) (s : Sup) (k : Nat) (hk : k ≤ 100) :
    reapLoop (k : Int) ws s = reapLoop (k : Int) (ws.take (100 - k)) s := by
  induction ws generalizing s k with
  | nil => simp [reapLoop]
  | cons w ws ih =>
    obtain ⟨pid, es⟩ := w
    by_cases h100 : k = 100
    · subst h100
      simp [reapLoop, sguard, reap_g0]
    · have hlt : k < 100 := by omega
      have htake : ((pid, es) :: ws).take (100 - k) = (pid, es) :: ws.take (100 - (k + 1)) := by
        have : 100 - k = (100 - (k + 1)) + 1 := by omega
        rw [this, List.take_succ_cons]
      rw [htake]
      simp only [reapLoop, sguard]
      split
      · rfl
      · split
        · rfl
        · split
          · rfl
          · have hcast : ((k : Int) + 1) = ((k + 1 : Nat) : Int) := by simp
            split
            · simp only [hcast]; exact ih _ (k + 1) (by omega)
            · simp only [hcast]; exact ih _ (k + 1) (by omega)

end Sv.Sup
