import SupervisorModel.Model.Proc
/-
  Operations on one process as the rest of supervisord performs them, with the callers' own
  guards (rpcinterface.startProcess/stopProcess/signalProcess, ProcessGroupBase.stop_all,
  Supervisor.reap → finish, group.transition), so that no precondition is left to the reader.
  A history is a list of operations; an exception raised inside one operation aborts *that*
  operation (the state is left as it was at the raise) and is recorded, later operations go on.
-/
namespace Sv.Proc
open Sv.Gen.Proc

inductive Op
  | transition (now mood : Int) (res : SpawnRes) (kr : KillRes)
  | reap (now es : Int) (busy : Bool)
  | rpcStart (now mood : Int) (res : SpawnRes)
  | rpcStop (now mood : Int) (kr : KillRes)
  | rpcSignal (now mood sig : Int) (kr : KillRes)
  | groupStop (now : Int) (kr : KillRes)
  | stopReport (now : Int)
deriving DecidableEq, Repr

/-- `stop_report()`: rollback adjustment and the throttled log line -/
def stopReport (cfg : Cfg) (now : Int) : S → S := guard fun s =>
  let e : Env := { now := now }
  if stop_report_g0 s.p cfg e then
    s |> setP (rollback cfg now)
      |> setP (fun p => if stop_report_g1 p cfg e then { p with laststopreport := stop_report_a1 p cfg e } else p)
  else s

/-- the RPC's answer: a `Faults` code (`faultSUCCESS` for a true/ok answer) -/
def answer (code : Int) : S → S := emit (.answer code)

/-- the checks `startProcess` makes before calling `spawn()`: the fault it raises, if any
    (`missing`: get_execv_args() raised NotFound/NotExecutable in the file pre-check) -/
def startRefusal (p : Proc) (missing : Bool) : Option Int :=
  if missing then some faultNO_FILE
  else if p.state ∈ runningStates then some faultALREADY_STARTED
  else if p.state = .unknown then some faultFAILED
  else if p.state = .stopping then some faultABNORMAL_TERMINATION
  else none

/-- rpcinterface.startProcess(name, wait=False): `_update` gate, file pre-check (the spawn
    result `badCmd` of the environment is already known there), state guards, spawn(),
    [reap()], SPAWN_ERROR test, transition() -/
def rpcStart (cfg : Cfg) (now mood : Int) (res : SpawnRes) : S → S := guard fun s =>
  if Sv.ilt mood moodRUNNING then answer faultSHUTDOWN_STATE s
  else
    match startRefusal s.p (res == .badCmd) with
    | some code => answer code s
    | none =>
    let s1 := spawn cfg now res s
    if s1.p.spawnerr then answer faultSPAWN_ERROR s1
    else s1 |> transition cfg now mood res .ok |> answer faultSUCCESS

/-- rpcinterface.stopProcess(name, wait=False) -/
def rpcStop (cfg : Cfg) (now mood : Int) (kr : KillRes) : S → S := guard fun s =>
  if Sv.ilt mood moodRUNNING then answer faultSHUTDOWN_STATE s
  else if !(s.p.state ∈ runningStates) then answer faultNOT_RUNNING s
  else
    -- process.stop() returns a message when nothing was signalled or delivery failed
    let msg := (s.p.state != .backoff && s.p.pid == 0) || (s.p.state != .backoff && kr == .fail)
    s |> stop cfg now kr |> answer (if msg then faultFAILED else faultSUCCESS)

/-- rpcinterface.signalProcess(name, signal) with a valid signal -/
def rpcSignal (cfg : Cfg) (now mood : Int) (sig : Int) (kr : KillRes) : S → S := guard fun s =>
  if Sv.ilt mood moodRUNNING then answer faultSHUTDOWN_STATE s
  else if !(s.p.state ∈ signallableStates) then answer faultNOT_RUNNING s
  else
    let msg := s.p.pid == 0 || kr == .fail
    s |> signal cfg now sig kr |> answer (if msg then faultFAILED else faultSUCCESS)

/-- ProcessGroupBase.stop_all, for one member -/
def groupStop (cfg : Cfg) (now : Int) (kr : KillRes) : S → S := guard fun s =>
  if s.p.state = .running then stop cfg now kr s
  else if s.p.state = .starting then stop cfg now kr s
  else if s.p.state = .backoff then giveUp cfg now s
  else s

def step (cfg : Cfg) (op : Op) : S → S :=
  match op with
  | .transition now mood res kr => transition cfg now mood res kr
  | .reap now es busy => finish cfg now es busy
  | .rpcStart now mood res => rpcStart cfg now mood res
  | .rpcStop now mood kr => rpcStop cfg now mood kr
  | .rpcSignal now mood sig kr => rpcSignal cfg now mood sig kr
  | .groupStop now kr => groupStop cfg now kr
  | .stopReport now => stopReport cfg now

/-- one operation started from a clean exception slate -/
def stepP (cfg : Cfg) (p : Proc) (op : Op) : S := step cfg op { p := p }

structure Hist where
  p : Proc
  outs : List Out := []
  errs : Nat := 0

/-- a history: operations one after another; an exception aborts only its own operation -/
def run (cfg : Cfg) (h : Hist) : List Op → Hist
  | [] => h
  | op :: ops =>
    let r := stepP cfg h.p op
    run cfg { p := r.p, outs := h.outs ++ r.outs, errs := h.errs + (if r.err.isSome then 1 else 0) } ops

/-! ### line protocol -/

def psName : PS → String
  | .stopped => "STOPPED" | .starting => "STARTING" | .running => "RUNNING" | .backoff => "BACKOFF"
  | .stopping => "STOPPING" | .exited => "EXITED" | .fatal => "FATAL" | .unknown => "UNKNOWN"

def outStr : Out → String
  | .ev to frm pid tries exp => s!"ev:{psName to}<{psName frm}:pid={pid}:tries={tries}:exp={if exp then 1 else 0}"
  | .fork pid => s!"fork:{pid}"
  | .kill t sig => s!"kill:{t}:{sig}"
  | .closeParent => "closeParent"
  | .closeChild => "closeChild"
  | .rejected => "rejected"
  | .answer c => s!"answer:{c}"

def procStr (p : Proc) : String :=
  s!"{psName p.state} pid={p.pid} killing={if p.killing then 1 else 0} backoff={p.backoff} delay={p.delay} laststart={p.laststart} laststop={p.laststop} admin={if p.adminStop then 1 else 0} sys={if p.systemStop then 1 else 0} es={match p.exitstatus with | some e => toString e | none => "None"} spawnerr={if p.spawnerr then 1 else 0}"

def parseSpawn (s : String) : Option SpawnRes :=
  match s.splitOn ":" with
  | ["ok", n] => n.toInt?.map SpawnRes.ok
  | ["badcmd"] => some .badCmd
  | ["pipeerr"] => some .pipeErr
  | ["forkerr"] => some .forkErr
  | _ => none

def parseKill (s : String) : Option KillRes :=
  match s with
  | "ok" => some .ok | "esrch" => some .esrch | "fail" => some .fail | _ => none

def parseAuto (s : String) : Option AutoRestart :=
  match s with
  | "false" => some .never | "unexpected" => some .unexpected | "true" => some .always | _ => none

def parseCfg (a : List String) : Option Cfg := do
  let startsecs ← kvInt a "startsecs"
  let startretries ← kvInt a "startretries"
  let autostart ← kvBool a "autostart"
  let autorestart ← (kvGet a "autorestart").bind parseAuto
  let ecs ← kvGet a "exitcodes"
  let exitcodes ← (if ecs = "-" then some [] else (ecs.splitOn ",").mapM String.toInt?)
  let stopsignal ← kvInt a "stopsignal"
  let stopwaitsecs ← kvInt a "stopwaitsecs"
  let stopasgroup ← kvBool a "stopasgroup"
  let killasgroup ← kvBool a "killasgroup"
  pure { startsecs, startretries, autostart, autorestart, exitcodes, stopsignal, stopwaitsecs, stopasgroup, killasgroup }

def parseOp (l : String) : Option Op :=
  match words l with
  | "transition" :: a => do
    pure (.transition (← kvInt a "now") (← kvInt a "mood") (← (kvGet a "spawn").bind parseSpawn) (← (kvGet a "kill").bind parseKill))
  | "reap" :: a => do pure (.reap (← kvInt a "now") (← kvInt a "es") (← kvBool a "busy"))
  | "rpcstart" :: a => do pure (.rpcStart (← kvInt a "now") (← kvInt a "mood") (← (kvGet a "spawn").bind parseSpawn))
  | "rpcstop" :: a => do pure (.rpcStop (← kvInt a "now") (← kvInt a "mood") (← (kvGet a "kill").bind parseKill))
  | "rpcsignal" :: a => do pure (.rpcSignal (← kvInt a "now") (← kvInt a "mood") (← kvInt a "sig") (← (kvGet a "kill").bind parseKill))
  | "groupstop" :: a => do pure (.groupStop (← kvInt a "now") (← (kvGet a "kill").bind parseKill))
  | "stopreport" :: a => do pure (.stopReport (← kvInt a "now"))
  | _ => none

def runLines (cfg : Cfg) : Proc → List String → List String
  | _, [] => []
  | p, l :: ls =>
    match parseOp l with
    | none => "bad-op" :: runLines cfg p ls
    | some op =>
      let r := stepP cfg p op
      let o := if r.outs.isEmpty then "-" else ";".intercalate (r.outs.map outStr)
      let e := match r.err with | some _ => "AssertionError" | none => "-"
      s!"{procStr r.p} | {o} | {e}" :: runLines cfg r.p ls

def runCase (cfgArgs : List String) (ops : List String) : List String :=
  match parseCfg cfgArgs with
  | none => ops.map fun _ => "bad-config"
  | some cfg => runLines cfg {} ops

end Sv.Proc
