import SupervisorModel.Basic.DriverKit
import SupervisorModel.Model.LogRead
import SupervisorModel.Model.TailF
import SupervisorModel.Model.Chunked
import SupervisorModel.Model.RpcLog
import SupervisorModel.Model.OutBuf
def main : IO Unit := Sv.driverMain [
  ("logread", Sv.LogRead.runCase), ("tailf", Sv.TailF.runCase),
  ("chunkenc", Sv.Chunked.runEnc), ("chunkdec", Sv.Chunked.runDec), ("rpclog", Sv.RpcLog.runCase),
  ("outbuf", Sv.OutBuf.runCase)]
