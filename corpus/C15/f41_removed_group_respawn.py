import sys
sys.path.insert(0,'/repo'); sys.path.insert(0,'/verif/harness')
from simkernel import SimKernel
progs=[dict(name='web', group='g', startsecs=0, autorestart='true')]
script=[(1024,[]),(1024,[]),(1024,[('exit','web',1),('removegroup',1,'g')]),(1024,[]),(1024,[]),(1024,[])]
k=SimKernel(progs,script); print(k.run())
for r in k.log:
    if r['kind'] in ('fork','rpc-answer','wait') and r.get('pid',1): print({a:b for a,b in r.items() if a not in ('t',)})
    if r['kind']=='boundary': print('  boundary', r['passno'], r['procs'], r['kernel'])
