import SupervisorModel.Lemmas.Infix
/-
  The reference splitter for capture mode (a specification, not a model of any code) and the
  item-level form of it used in the refinement proofs of C07/C08.

  `refSplit c m s` reads the *whole* stream `s` as "no more data follows", starting outside
  (`m = false`) or inside (`m = true`) a capture section: `plain` are the bytes outside all
  sections (tags removed), `sections` the enclosed bytes of every section that is closed by an
  END tag, `unterminated` the bytes after a BEGIN tag that is never closed.
-/
set_option linter.unusedSimpArgs false
namespace Sv.CapSpec
open Sv Sv.OutDisp

/-- the tag the scanner is looking for -/
def tokOf (c : Cfg) (m : Bool) : Bytes := if m then c.etok else c.btok

structure Ref where
  plain : Bytes
  sections : List Bytes
  unterminated : Option Bytes
deriving DecidableEq, Repr

def refSplit (c : Cfg) (m : Bool) (s : Bytes) : Ref :=
  match h : splitFirst (tokOf c m) s with
  | none => if m then ⟨[], [], some s⟩ else ⟨s, [], none⟩
  | some (b, a) =>
    let r := refSplit c (!m) a
    if m then ⟨r.plain, b :: r.sections, r.unterminated⟩ else ⟨b ++ r.plain, r.sections, r.unterminated⟩
termination_by s.length
decreasing_by exact splitFirst_some_length h

/-- what happens to one byte of the stream, or a recognised tag (proof device) -/
inductive Item
  | byte (cap : Bool) (b : UInt8)   -- a byte outside (false) / inside (true) a capture section
  | tag (nowCap : Bool)             -- a BEGIN (true) / END (false) tag was consumed
deriving DecidableEq, Repr

/-- the same splitter, as the list of per-byte decisions -/
def spec (c : Cfg) (m : Bool) (s : Bytes) : List Item :=
  match h : splitFirst (tokOf c m) s with
  | none => s.map (.byte m)
  | some (b, a) => b.map (.byte m) ++ .tag (!m) :: spec c (!m) a
termination_by s.length
decreasing_by exact splitFirst_some_length h

/-- the `_log` / `toggle_capturemode` calls of a scan as items, `m` = capturemode before them -/
def flat (m : Bool) : List Act → List Item
  | [] => []
  | .data d :: r => d.map (.byte m) ++ flat m r
  | .toggle :: r => .tag (!m) :: flat (!m) r

def endMode (m : Bool) : List Act → Bool
  | [] => m
  | .data _ :: r => endMode m r
  | .toggle :: r => endMode (!m) r

/-- bytes outside capture sections -/
def plainOf : List Item → Bytes
  | [] => []
  | .byte false b :: r => b :: plainOf r
  | _ :: r => plainOf r

/-- enclosed bytes of the sections closed in the item list; `cur` = enclosed bytes so far of
    the section open at its start -/
def sectionsGo : Bytes → List Item → List Bytes
  | _, [] => []
  | cur, .byte true b :: r => sectionsGo (cur ++ [b]) r
  | cur, .byte false _ :: r => sectionsGo cur r
  | cur, .tag true :: r => sectionsGo cur r
  | cur, .tag false :: r => cur :: sectionsGo [] r

/-- enclosed bytes of the section still open at the end -/
def openOf : Bytes → List Item → Bytes
  | cur, [] => cur
  | cur, .byte true b :: r => openOf (cur ++ [b]) r
  | cur, .byte false _ :: r => openOf cur r
  | cur, .tag true :: r => openOf cur r
  | _, .tag false :: r => openOf [] r

theorem spec_none {c : Cfg} {m : Bool} {s : Bytes} (h : splitFirst (tokOf c m) s = none) :
    spec c m s = s.map (.byte m) := by
  rw [spec]; split
  · rfl
  · simp_all

theorem spec_some {c : Cfg} {m : Bool} {s b a : Bytes} (h : splitFirst (tokOf c m) s = some (b, a)) :
    spec c m s = b.map (.byte m) ++ .tag (!m) :: spec c (!m) a := by
  rw [spec]; split
  · simp_all
  · rename_i b' a' h'
    rw [h] at h'
    simp at h'
    obtain ⟨rfl, rfl⟩ := h'
    rfl

theorem spec_nil (c : Cfg) (m : Bool) : spec c m [] = [] := by
  rw [spec_none (splitFirst_nil _)]; rfl

theorem refSplit_none {c : Cfg} {m : Bool} {s : Bytes} (h : splitFirst (tokOf c m) s = none) :
    refSplit c m s = if m then ⟨[], [], some s⟩ else ⟨s, [], none⟩ := by
  rw [refSplit]; split
  · rfl
  · simp_all

theorem refSplit_some {c : Cfg} {m : Bool} {s b a : Bytes} (h : splitFirst (tokOf c m) s = some (b, a)) :
    refSplit c m s =
      if m then ⟨(refSplit c (!m) a).plain, b :: (refSplit c (!m) a).sections, (refSplit c (!m) a).unterminated⟩
      else ⟨b ++ (refSplit c (!m) a).plain, (refSplit c (!m) a).sections, (refSplit c (!m) a).unterminated⟩ := by
  rw [refSplit]; split
  · simp_all
  · rename_i b' a' h'
    rw [h] at h'
    simp at h'
    obtain ⟨rfl, rfl⟩ := h'
    rfl

/-! append laws -/

theorem plainOf_append (a b : List Item) : plainOf (a ++ b) = plainOf a ++ plainOf b := by
  induction a with
  | nil => rfl
  | cons x r ih => cases x with
    | byte cap v => cases cap <;> simp [plainOf, ih]
    | tag t => simp [plainOf, ih]

theorem sectionsGo_append (cur : Bytes) (a b : List Item) :
    sectionsGo cur (a ++ b) = sectionsGo cur a ++ sectionsGo (openOf cur a) b := by
  induction a generalizing cur with
  | nil => rfl
  | cons x r ih => cases x with
    | byte cap v => cases cap <;> simp [sectionsGo, openOf, ih]
    | tag t => cases t <;> simp [sectionsGo, openOf, ih]

theorem openOf_append (cur : Bytes) (a b : List Item) :
    openOf cur (a ++ b) = openOf (openOf cur a) b := by
  induction a generalizing cur with
  | nil => rfl
  | cons x r ih => cases x with
    | byte cap v => cases cap <;> simp [openOf, ih]
    | tag t => cases t <;> simp [openOf, ih]

theorem plainOf_bytes (m : Bool) (d : Bytes) : plainOf (d.map (.byte m)) = if m then [] else d := by
  induction d with
  | nil => cases m <;> rfl
  | cons x r ih => cases m <;> simp_all [plainOf]

theorem sectionsGo_bytes (cur : Bytes) (m : Bool) (d : Bytes) : sectionsGo cur (d.map (.byte m)) = [] := by
  induction d generalizing cur with
  | nil => rfl
  | cons x r ih => cases m <;> simp [sectionsGo, ih]

theorem openOf_bytes (cur : Bytes) (m : Bool) (d : Bytes) :
    openOf cur (d.map (.byte m)) = if m then cur ++ d else cur := by
  induction d generalizing cur with
  | nil => cases m <;> simp [openOf]
  | cons x r ih => cases m <;> simp [openOf, ih]

/-! the item form and the structured form of the reference agree -/

/-- sections of a scan that starts inside a section whose first `cur` bytes were seen already -/
def prefixFirst (cur : Bytes) : List Bytes → List Bytes
  | [] => []
  | s :: r => (cur ++ s) :: r

theorem prefixFirst_nil (l : List Bytes) : prefixFirst [] l = l := by
  cases l <;> simp [prefixFirst]

theorem spec_ref (c : Cfg) : ∀ (n : Nat) (s : Bytes), s.length ≤ n →
    (plainOf (spec c false s) = (refSplit c false s).plain ∧
     sectionsGo [] (spec c false s) = (refSplit c false s).sections) ∧
    (plainOf (spec c true s) = (refSplit c true s).plain ∧
     ∀ cur, sectionsGo cur (spec c true s) = prefixFirst cur (refSplit c true s).sections) := by
  intro n
  induction n with
  | zero =>
    intro s hs
    have : s = [] := by cases s <;> simp_all
    subst this
    simp [spec_nil, refSplit_none (splitFirst_nil _), plainOf, sectionsGo, prefixFirst]
  | succ n ih =>
    intro s hs
    constructor
    · cases h : splitFirst (tokOf c false) s with
      | none => simp [spec_none h, refSplit_none h, plainOf_bytes, sectionsGo_bytes]
      | some ba =>
        obtain ⟨b, a⟩ := ba
        have hl := splitFirst_some_length h
        obtain ⟨_, i1, i2⟩ := ih a (by omega)
        rw [spec_some h, refSplit_some h]
        simp only [Bool.not_false, Bool.false_eq_true, if_false]
        rw [plainOf_append, sectionsGo_append, plainOf_bytes, sectionsGo_bytes, openOf_bytes]
        simp [plainOf, sectionsGo, i1, i2, prefixFirst_nil]
    · cases h : splitFirst (tokOf c true) s with
      | none => simp [spec_none h, refSplit_none h, plainOf_bytes, sectionsGo_bytes, prefixFirst]
      | some ba =>
        obtain ⟨b, a⟩ := ba
        have hl := splitFirst_some_length h
        obtain ⟨⟨i1, i2⟩, _⟩ := ih a (by omega)
        rw [spec_some h, refSplit_some h]
        simp only [Bool.not_true, if_true]
        rw [plainOf_append, plainOf_bytes]
        refine ⟨by simp [plainOf, i1], ?_⟩
        intro cur
        rw [sectionsGo_append, sectionsGo_bytes, openOf_bytes]
        simp [sectionsGo, i2, prefixFirst]

theorem plainOf_spec (c : Cfg) (s : Bytes) : plainOf (spec c false s) = (refSplit c false s).plain :=
  (spec_ref c s.length s (Nat.le_refl _)).1.1
theorem sections_spec (c : Cfg) (s : Bytes) : sectionsGo [] (spec c false s) = (refSplit c false s).sections :=
  (spec_ref c s.length s (Nat.le_refl _)).1.2

end Sv.CapSpec
