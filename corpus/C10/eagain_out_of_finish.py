# EAGAIN out of Subprocess.finish() -> drain() -> PInputDispatcher.handle_write_event()
# real classes from /repo; only the options seam (write/readfd/fork/make_pipes) is faked.
import sys, errno
sys.path.insert(0, '/repo')
from supervisor.tests.base import DummyOptions, DummyPConfig, DummyPGroupConfig
from supervisor.options import EventListenerConfig
from supervisor.process import Subprocess, EventListenerPool
from supervisor import events, states

class FullPipeOptions(DummyOptions):
    def readfd(self, fd): return b''
    def write(self, fd, data):            # the listener's stdin pipe is full and still has a reader
        raise OSError(errno.EAGAIN, 'Resource temporarily unavailable')

class Cfg(DummyPConfig):
    def make_dispatchers(self, proc): return EventListenerConfig.make_dispatchers(self, proc)
    def make_process(self, group=None):
        p = Subprocess(self); p.group = group; return p

o = FullPipeOptions(); o.forkpid = 4242
c = Cfg(o, 'lis', '/bin/cat', autostart=False, autorestart=False, startsecs=0, exitcodes=(0,))
g = DummyPGroupConfig(o, 'pool', pconfigs=[c]); g.pool_events = [events.TickEvent]; g.buffer_size = 5
g.result_handler = lambda ev, res: None
events.clear()
pool = EventListenerPool(g)
p = pool.processes['lis']
p.spawn()                                          # real spawn: pid 4242, real dispatchers
p.state = states.ProcessStates.RUNNING
p.dispatchers[p.pipes['stdout']].state_buffer = b'READY\n'
p.dispatchers[p.pipes['stdout']].handle_listener_state_change()      # listener READY
events.notify(events.Tick5Event(5, None))          # pool buffers the event
pool.transition()                                  # dispatch: write() -> EAGAIN swallowed (fix F13), listener BUSY
d = p.dispatchers[p.pipes['stdin']]
print('after dispatch: listener_state', p.listener_state, 'input_buffer bytes', len(d.input_buffer), 'writable', d.writable())
try:
    p.finish(4242, 0)                              # the child was reaped while its stdin pipe is still full
    print('finish returned; pid', p.pid)
except OSError as e:
    print('finish() raised', repr(e), '-> escapes reap()/runforever(); pid still', p.pid, 'state', p.state,
          'event held', p.event is not None, 'pool buffer', len(pool.event_buffer))
print('spawn() afterwards ->', p.spawn(), '(None: refused, "process already running")')
