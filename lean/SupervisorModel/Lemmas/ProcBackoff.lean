import SupervisorModel.Lemmas.ProcFork
/-
  How the retry counter `backoff` moves: every operation leaves it alone, resets it to 0, or
  enters BACKOFF adding exactly one; a fork out of BACKOFF during a pass (an automatic retry)
  leaves it untouched.  Basis of the history-level retry budget (C03).
-/
set_option linter.unusedSimpArgs false
set_option linter.unusedVariables false
namespace Sv.Proc
open Sv Sv.Gen.Proc

/-- the three ways the retry counter can move in one operation -/
def BStep (p q : Proc) : Prop :=
  q.backoff = 0 ∨ (q.backoff = p.backoff ∧ (q.state = .backoff → p.state = .backoff)) ∨
  (q.backoff = p.backoff + 1 ∧ q.state = .backoff)

theorem bstep_refl (p : Proc) : BStep p p := Or.inr (Or.inl ⟨rfl, id⟩)

theorem rollback_backoff (cfg : Cfg) (now : Int) (p : Proc) : (rollback cfg now p).backoff = p.backoff := by
  simp only [rollback]; repeat' split
  all_goals simp

theorem spawn_bstep (cfg : Cfg) (now : Int) (res : SpawnRes) (p : Proc) (os : List Out) :
    BStep p (spawn cfg now res { p := p, outs := os }).p ∧
    (forks (spawn cfg now res { p := p, outs := os }).outs ≠ forks os →
      (spawn cfg now res { p := p, outs := os }).p.backoff = p.backoff ∧ (spawn cfg now res { p := p, outs := os }).p.state = .starting) := by
  cases hs : p.state <;> cases res <;> by_cases hp : p.pid = 0 <;>
    simp [procdefs, hs, hp, BStep, forks] <;> (repeat' split) <;> simp_all [forks]

theorem kill_bstep (cfg : Cfg) (now sig : Int) (kr : KillRes) (p : Proc) (os : List Out) :
    BStep p (kill cfg now sig kr { p := p, outs := os }).p := by
  cases hs : p.state <;> cases kr <;> by_cases hp : p.pid = 0 <;> simp [procdefs, hs, hp, BStep, signallableStates]

theorem giveUp_bstep (cfg : Cfg) (now : Int) (p : Proc) (os : List Out) : BStep p (giveUp cfg now { p := p, outs := os }).p := by
  cases hs : p.state <;> simp [procdefs, hs, BStep]

theorem signal_bstep (cfg : Cfg) (now sig : Int) (kr : KillRes) (p : Proc) (os : List Out) :
    BStep p (signal cfg now sig kr { p := p, outs := os }).p := by
  cases hs : p.state <;> cases kr <;> by_cases hp : p.pid = 0 <;> simp [procdefs, hs, hp, BStep, signallableStates]

theorem finishCore_bstep (cfg : Cfg) (e : Env) (busy : Bool) (p : Proc) (os : List Out) :
    BStep p (finishCore cfg e busy { p := p, outs := os }).p := by
  cases hs : p.state <;> cases busy <;> cases hk : p.killing <;> cases ht : e.tooQuickly <;> cases hx : e.exitExpected <;>
    simp [procdefs, hs, hk, ht, hx, BStep]

theorem toRunning_bstep (cfg : Cfg) (e : Env) (p : Proc) (os : List Out) : BStep p (toRunning cfg e { p := p, outs := os }).p := by
  cases hs : p.state <;> cases h10 : transition_g10 p cfg e <;> cases h11 : transition_g11 p cfg e <;>
    simp [toRunning, changeState, assertIn, emit, setP, guard, BStep, hs, h10, h11, transition_a4, transition_a5, transition_c0,
      transition_c1_0, change_state_g0, change_state_g1, change_state_a0, change_state_a2, change_state_a4, change_state_a5, announces_all]

end Sv.Proc
