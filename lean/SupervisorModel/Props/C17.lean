-- stub: replaced by the property author
namespace Sv.Props.C17
end Sv.Props.C17
