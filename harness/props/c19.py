"""
C19 -- rotating logs keep the newest output within the configured bounds.

Implementation side: the real loggers.Logger + handle_file() -> FileHandler / RotatingFileHandler
writing into a scratch directory; operations are the calls supervisor itself makes
(logger.info(data) as the dispatchers do; handler.remove()+reopen() as removelogs does;
handler.reopen() as reopenlogs/SIGUSR2 does) plus external removal / replacement of files between
operations.  Observable = the directory listing with file contents after every operation.
Correspondence: the same operations through Model/Rotate.lean.
Monitors: the property statement evaluated on the real directory contents against the write
history (independent of the model).
"""
import io, os, re, sys, tempfile
from framework import Infra

ID = 'C19'
LEAN_PROPS = 'SupervisorModel.Props.C19'
DRIVER = 'drv_c19'
GENERATED = ['Rotate']
TRUSTED = [
    "modelled, not verified: os.rename/os.remove/os.path.exists/open('ab'|'wb') as an abstract file system "
    "(name index -> file; the open stream follows the file, not the name); the only OS error is ENOENT",
    "not modelled: external truncation of, or writes by others into, the live file (a 'wb' stream would leave a hole); "
    "disk-full and permission errors; SyslogHandler; BoundIO (C08)",
    "the handlers are driven directly and behind a real POutputDispatcher (stdout and stderr logs, with and without capture, removelogs/reopenlogs in both modes); which bytes the dispatcher hands to the normal log (tag matching, hold-back) is C07/C08's subject: here the calls of normallog.info are observed at the logger seam and only checked to be a prefix of the output outside capture sections; the capture log itself is an in-memory BoundIO (C08), not a file; a whole daemon run with a forked child is not part of this check",
]
ASSUMPTIONS = [
    "one handler per log file (supervisor never opens two handlers on the same path)",
    "external actors only unlink or atomically replace whole files between two handler operations",
]
RULE = ("cases = (rotating?, maxbytes, backups, op sequence); maxbytes in {0,1,2,3,5,8,16,40}, backups in {0,1,2,3,5}; "
        "write sizes 0, 1, maxbytes-1, maxbytes, maxbytes+1, 2*maxbytes(+1) and small random; four op mixes: writes only, "
        "+reopen, +clear, +external remove/replace of any name index 0..backups+1; a fifth population drives dispatchers with capture enabled (chunks with BEGIN/END tags; clear, reopen and external removal/replacement both in ordinary mode and inside a capture section; the model is fed the bytes the dispatcher hands to the normal log); about 30% of the random cases go through a real POutputDispatcher (child stdout/stderr log); payload bytes are a running counter so that "
        "file contents identify their place in the history; non-trivial = at least one rollover or clear or external op happened; "
        "distinct = distinct (config, op list)")

FMT_TEXT = '%(levelname)s %(message)s\n'


def hexs(b):
    return b.hex() if b else '-'


class Real:
    """the real handler in a scratch directory"""
    def __init__(self, root, rotating, maxbytes, backups, text=False, direct=False):
        from supervisor import loggers
        self.loggers = loggers
        os.makedirs(root)
        self.root = root
        self.path = os.path.join(root, 'log')
        self.logger = loggers.getLogger()
        self.text = text
        if direct:
            # RotatingFileHandler with maxBytes <= 0 (handle_file never builds it: rotating = not not maxbytes)
            h = loggers.RotatingFileHandler(self.path, 'ab', maxbytes, backups)
            h.setFormat('%(message)s'); h.setLevel(self.logger.level)
            self.logger.addHandler(h)
        else:
            loggers.handle_file(self.logger, self.path, FMT_TEXT if text else '%(message)s',
                                rotating=rotating, maxbytes=maxbytes, backups=backups)

    def name(self, i):
        return self.path if i == 0 else '%s.%d' % (self.path, i)

    def op(self, o):
        """returns the canonical error part"""
        err = 'ok'
        saved = sys.stderr
        sys.stderr = cap = io.StringIO()
        try:
            try:
                if o[0] == 'write':
                    if self.text:
                        # activity-log style: a str message through a format; o[1] is 'INFO <msg>\n'
                        self.logger.info(o[1][5:-1].decode('ascii'))
                    else:
                        self.logger.info(o[1])
                elif o[0] == 'clear':
                    for h in self.logger.handlers:
                        h.remove()
                        h.reopen()
                elif o[0] == 'reopen':
                    for h in self.logger.handlers:
                        h.reopen()
                elif o[0] == 'extremove':
                    try:
                        os.remove(self.name(o[1]))
                    except FileNotFoundError:
                        pass
                elif o[0] == 'extreplace':
                    tmp = os.path.join(self.root, '.tmp')
                    with open(tmp, 'wb') as f:
                        f.write(o[2])
                    os.rename(tmp, self.name(o[1]))
                else:
                    raise Infra('unknown op %r' % (o,))
            except ValueError:
                err = 'err closedStream'
            except OSError:
                err = 'err osError'
        finally:
            sys.stderr = saved
        if cap.getvalue():
            err += ' swallowed-exception'
        return err

    def run_op(self, o):
        """-> [(model line, operation as the monitor sees it, listing, other names, error part)]"""
        err = self.op(o)
        ls, other = self.listing()
        return [(op_line(o), o, ls, other, err)]

    def listing(self):
        res, other = {}, []
        for fn in os.listdir(self.root):
            m = re.fullmatch(r'log(?:\.(\d+))?', fn)
            if not m or (m.group(1) and str(int(m.group(1))) != m.group(1)):
                other.append(fn); continue
            with open(os.path.join(self.root, fn), 'rb') as f:
                res[int(m.group(1) or 0)] = f.read()
        return res, other

    def close(self):
        self.logger.close()


class RealL2(Real):
    """the same handlers behind a real POutputDispatcher (a child's stdout or stderr log): chunks arrive through
    handle_read_event(), clearProcessLogs -> removelogs(), SIGUSR2 -> reopenlogs()"""
    def __init__(self, root, rotating, maxbytes, backups, channel='stdout', capture=0):
        from supervisor import loggers, events
        from supervisor.dispatchers import POutputDispatcher
        from supervisor.tests.base import DummyOptions, DummyProcess, DummyPConfig
        os.makedirs(root)
        self.root = root
        self.path = os.path.join(root, 'log')
        self.text = False
        options = DummyOptions()
        options.getLogger = loggers.getLogger          # the real logger factory (ServerOptions.getLogger)
        kw = {channel + '_logfile': self.path, channel + '_logfile_maxbytes': maxbytes if rotating else 0,
              channel + '_logfile_backups': backups, channel + '_capture_maxbytes': capture}
        config = DummyPConfig(options, 'proc', '/bin/proc', **kw)
        self.options = options
        self.disp = POutputDispatcher(DummyProcess(config),
                                      events.ProcessCommunicationStdoutEvent if channel == 'stdout'
                                      else events.ProcessCommunicationStderrEvent, 0)
        self.logger = self.disp.normallog
        self.BEGIN, self.END = events.ProcessCommunicationEvent.BEGIN_TOKEN, events.ProcessCommunicationEvent.END_TOKEN
        self.stream = b''           # everything the child has written so far
        self.handed = b''           # everything the dispatcher handed to the normal log so far
        self.subs = []
        # observe the logger seam: every normallog.info(data) call with the directory as it is right after it
        orig = self.disp.normallog.info
        def info(data, **kw):
            r = orig(data, **kw)
            ls, other = self.listing()
            self.subs.append((bytes(data), ls, other))
            return r
        self.disp.normallog.info = info

    def in_capture(self):
        """is the child inside a capture section?  computed from the bytes sent, not from the dispatcher"""
        mode, rest = False, self.stream
        while True:
            tok = self.END if mode else self.BEGIN
            i = rest.find(tok)
            if i < 0:
                return mode
            mode, rest = not mode, rest[i + len(tok):]

    def plain_expected(self):
        """the bytes of the stream outside capture sections (tags excluded)"""
        out, mode, rest = b'', False, self.stream
        while True:
            tok = self.END if mode else self.BEGIN
            i = rest.find(tok)
            if i < 0:
                return out + (b'' if mode else rest)
            if not mode:
                out += rest[:i]
            mode, rest = not mode, rest[i + len(tok):]

    def run_op(self, o):
        if o[0] == 'chunk':
            del self.subs[:]
            self.stream += o[1]
            err = self.op(('write', o[1]))
            res = [('write ' + hexs(d), ('write', d), ls, other, 'ok') for d, ls, other in self.subs]
            self.handed += b''.join(d for d, _, _ in self.subs)
            if err != 'ok':
                ls, other = self.listing()
                if res:
                    res[-1] = res[-1][:4] + (err,)
                else:
                    res = [(None, ('noop',), ls, other, err)]        # nothing reached the log, but the read raised
            return res
        if o[0] in ('clear', 'reopen'):
            mode = self.in_capture()
            err = self.op(o)
            ls, other = self.listing()
            return [('%s %d' % ('dclear' if o[0] == 'clear' else 'dreopen', 1 if mode else 0), o, ls, other, err)]
        return Real.run_op(self, o)

    def op(self, o):
        if o[0] not in ('write', 'clear', 'reopen'):
            return Real.op(self, o)
        err = 'ok'
        saved = sys.stderr
        sys.stderr = cap = io.StringIO()
        try:
            try:
                if o[0] == 'write':
                    self.options.readfd_result = o[1]
                    self.disp.handle_read_event()
                elif o[0] == 'clear':
                    self.disp.removelogs()
                else:
                    self.disp.reopenlogs()
            except ValueError:
                err = 'err closedStream'
            except OSError:
                err = 'err osError'
        finally:
            sys.stderr = saved
        if cap.getvalue():
            err += ' swallowed-exception'
        return err


def op_line(o):
    if o[0] == 'write': return 'write ' + hexs(o[1])
    if o[0] == 'chunk': return 'chunk ' + hexs(o[1])
    if o[0] == 'extremove': return 'extremove %d' % o[1]
    if o[0] == 'extreplace': return 'extreplace %d %s' % (o[1], hexs(o[2]))
    return o[0]


def canon(ls, other, err, show):
    parts = ['%d=%s' % (k, hexs(ls[k])) for k in sorted(ls) if k <= show]
    parts += ['beyond:%d' % k for k in sorted(ls) if k > show] + ['other:' + o for o in sorted(other)]
    return ' '.join(parts) + ' | ' + err


# ---------------------------------------------------------------------------------------------
# monitors: the property over the real directory contents vs. the write history
# ---------------------------------------------------------------------------------------------
def is_segment_chain(files_old_to_new, hist):
    """every content is an infix of hist and they can be placed in age order without overlap"""
    pos = 0
    for c in files_old_to_new:
        if not c:
            continue
        k = hist.find(c, pos)
        if k < 0:
            return False
        pos = k + len(c)
    return True


class Monitor:
    def __init__(self, ctx, cfg, ops):
        self.ctx, self.cfg, self.ops = ctx, cfg, ops
        self.rot = cfg['rotating'] and cfg['maxbytes'] > 0
        self.mb, self.N = cfg['maxbytes'], cfg['backups']
        self.hist = b''
        self.prev = {0: b''}
        self.seen_ext = self.seen_replace = self.seen_clear = False
        self.attached = True
        self.mark = None        # history offset of the last clear/reopen with no external op since
        self.dropped = 0
        self.k = 0

    def bad(self, kind, what):
        self.ctx.violation(kind, what + ' (after op %d: %s)' % (self.k, op_line(self.ops[self.k])),
                           {'cfg': self.cfg, 'ops': [list_op(o) for o in self.ops[:self.k + 1]]})

    def step(self, k, o, ls, other, err):
        self.k = k
        mb, N, prev = self.mb, self.N, self.prev
        if o[0] == 'write':
            self.hist += o[1]
        if o[0] in ('extremove', 'extreplace'):
            self.seen_ext = True
            self.mark = None
            if o[1] == 0: self.attached = False
            if o[0] == 'extreplace': self.seen_replace = True
        if o[0] in ('clear', 'reopen'):
            self.attached = True
            self.mark = len(self.hist)
            if o[0] == 'clear': self.seen_clear = True
        if err != 'ok':
            self.bad('exception-escaped-log-operation', 'handler operation raised or swallowed an exception: ' + err)
        if other:
            self.bad('unexpected-file-name', 'files %r in the log directory' % (other,))
        chain = b''.join(ls[i] for i in sorted(ls, reverse=True))
        limit = N if self.rot else 0
        # files present: the log and at most N backups .1 .. .N
        if not self.seen_replace:
            out = [i for i in ls if i > limit]
            if out:
                self.bad('file-outside-bounds', 'names %r exist with backups=%d rotating=%s' % (out, N, self.rot))
        # maxbytes = 0 (or plain FileHandler): nothing is ever rotated or dropped
        if not self.rot and not self.seen_ext and not self.seen_clear:
            if ls != {0: self.hist}:
                self.bad('rotated-or-lost-with-maxbytes0', 'directory %r, written %r' % (sorted(ls), len(self.hist)))
        if self.rot:
            # every file a contiguous segment of the history, in age order (no reordering, no duplication)
            if not self.seen_replace:
                if not is_segment_chain([ls[i] for i in sorted(ls, reverse=True)], self.hist):
                    self.bad('file-not-a-history-segment', 'files are not age-ordered contiguous segments of what was written')
                short = [i for i in ls if i > 0 and len(ls[i]) < mb]
                if short:
                    self.bad('short-backup', 'backup %r shorter than maxbytes=%d' % (short, mb))
            # the live log is shorter than maxbytes once a write has completed
            if o[0] == 'write' and self.attached and not self.seen_replace and 0 in ls and len(ls[0]) >= mb:
                self.bad('live-log-too-long', 'live log has %d bytes, maxbytes=%d' % (len(ls[0]), mb))
            # writes, reopens only: .N ++ ... ++ .1 ++ log is a suffix of everything written; only whole oldest files dropped
            if not self.seen_ext and not self.seen_clear:
                if sorted(ls) != list(range(len(ls))):
                    self.bad('hole-in-backup-names', 'names %r' % sorted(ls))
                elif not self.hist.endswith(chain):
                    self.bad('gap-or-reorder-in-rotated-files', 'concatenation of the files is not a suffix of what was written')
                else:
                    nd = len(self.hist) - len(chain)
                    if nd != self.dropped:
                        oldest = prev.get(max(prev)) if N > 0 else prev.get(0, b'') + (o[1] if o[0] == 'write' else b'')
                        if not (N == 0 or max(prev) == N) or nd - self.dropped != len(oldest):
                            self.bad('partial-file-dropped', 'dropped %d bytes, oldest file had %d' % (nd - self.dropped, len(oldest)))
                        self.dropped = nd
            # a write while the handler is bound to the configured path lands there (or in .1 when it filled the log)
            if o[0] == 'write' and self.attached and 0 in prev:
                full = prev[0] + o[1]
                if len(full) < mb:
                    good = ls.get(0) == full
                else:
                    good = ls.get(0) == b'' and (N <= 0 or ls.get(1) == full)
                if not good:
                    self.bad('write-not-at-configured-path' if N > 0 or len(full) < mb else 'backups0-not-truncated',
                             'log had %d bytes, wrote %d, now log=%r .1=%r' % (len(prev[0]), len(o[1]),
                              None if 0 not in ls else len(ls[0]), None if 1 not in ls else len(ls[1])))
        else:
            if o[0] == 'write' and self.attached and 0 in prev and ls.get(0) != prev[0] + o[1]:
                self.bad('write-not-at-configured-path', 'plain handler: write did not append to the configured path')
        # clear / reopen: the handler is at the configured path afterwards, nothing written later is lost
        if o[0] in ('clear', 'reopen'):
            if 0 not in ls:
                self.bad('no-file-at-configured-path', 'no log file after ' + o[0])
            elif o[0] == 'clear' and ls[0] != b'':
                self.bad('clear-did-not-empty-log', 'log has %d bytes after clear' % len(ls[0]))
            elif o[0] == 'reopen' and 0 in prev and ls[0] != prev[0]:
                self.bad('reopen-changed-log', 'reopen changed the log contents')
            if o[0] == 'clear' and any(ls.get(i) != prev.get(i) for i in set(ls) | set(prev) if i > 0):
                self.bad('clear-touched-backups', 'clear changed a backup file')
        if self.mark is not None and o[0] == 'write' and not self.seen_replace:
            w = self.hist[self.mark:]
            if not (chain.endswith(w) or w.endswith(chain)):
                self.bad('output-lost-after-clear-or-reopen', 'bytes written after the last clear/reopen are missing from the files')
        self.prev = dict(ls)


def list_op(o):
    return [o[0]] + [x.hex() if isinstance(x, bytes) else x for x in o[1:]]


def unlist_op(l):
    if l[0] in ('write', 'chunk'): return (l[0], bytes.fromhex(l[1]))
    if l[0] == 'extreplace': return ('extreplace', l[1], bytes.fromhex(l[2]))
    if l[0] == 'extremove': return ('extremove', l[1])
    return (l[0],)


class Runner:
    def __init__(self, ctx):
        self.ctx = ctx
        self.cases, self.impls = [], []
        self.n = 0

    def one(self, cfg, ops, monitor=True):
        ctx = self.ctx
        self.n += 1
        show = max(cfg['backups'], 0) + 2
        if cfg.get('l2'):
            real = RealL2(os.path.join(tempfile.mkdtemp(dir=ctx.scratch), 'd'), cfg['rotating'], cfg['maxbytes'], cfg['backups'],
                          channel=cfg['l2'], capture=cfg.get('capture', 0))
            ctx.count('through-dispatcher:' + cfg['l2'] + (':capture-enabled' if cfg.get('capture') else ''))
        else:
            real = Real(os.path.join(tempfile.mkdtemp(dir=ctx.scratch), 'd'), cfg['rotating'], cfg['maxbytes'], cfg['backups'],
                        text=cfg.get('text', False), direct=cfg.get('direct', False))
        mon = Monitor(ctx, cfg, ops)
        lines, model_ops = [], []
        nontrivial = False
        try:
            for k, ho in enumerate(ops):
                ctx.count('op:' + ho[0])
                before, _ = real.listing()
                if ho[0] in ('clear', 'reopen') and cfg.get('capture'):
                    ctx.count('%s:%s' % (ho[0], 'inside-capture-section' if real.in_capture() else 'ordinary-mode'))
                for mline, o, ls, other, err in real.run_op(ho):
                    if mline is not None:
                        model_ops.append(mline)
                        lines.append(canon(ls, other, err, show))
                    if o[0] == 'write':
                        rolled = ls.get(0, b'') != before.get(0, b'') + o[1]
                        ctx.count('write:' + ('rollover-or-detached' if rolled else 'append'))
                        nontrivial = nontrivial or rolled
                        mb = cfg['maxbytes']
                        ctx.count('write-size:' + ('0' if not o[1] else '<mb' if len(o[1]) < mb else '=mb' if len(o[1]) == mb else '>mb'))
                    else:
                        nontrivial = True
                    if monitor:
                        mon.step(k, o, ls, other, err)
                    before = ls
                if ho[0] == 'chunk' and monitor and not real.plain_expected().startswith(real.handed):
                    mon.k = k
                    mon.bad('plain-output-misrouted', 'the bytes handed to the log are not the child output outside capture sections')
        finally:
            real.close()
        ctx.count('cfg:%s mb=%d' % ('rot' if cfg['rotating'] else 'plain', cfg['maxbytes']))
        ctx.count('backups=%d' % cfg['backups'])
        ctx.case_done((sorted(cfg.items()), [list_op(o) for o in ops]), nontrivial)
        self.cases.append(('case rotate rotating=%d maxbytes=%d backups=%d show=%d' % (
            1 if cfg['rotating'] else 0, cfg['maxbytes'], cfg['backups'], show), model_ops))
        self.impls.append(lines)
        return lines


class Payload:
    """running counter bytes, so that every file content identifies its place in the history"""
    def __init__(self):
        self.c = 0
    def take(self, n):
        b = bytes((self.c + i) % 251 for i in range(n))
        self.c += n
        return b


def gen_case(rng, mix):
    mb = rng.choice([1, 2, 3, 5, 8, 16, 40]) if rng.random() < 0.9 else 0
    N = rng.choice([0, 1, 2, 3, 5])
    rotating = mb > 0
    cfg = {'rotating': rotating, 'maxbytes': mb, 'backups': N}
    if mb == 0 and rng.random() < 0.5:
        cfg.update(rotating=True, direct=True)
    text = mix != 'ext' and mb >= 8 and rng.random() < 0.15
    if text:
        cfg['text'] = True
    l2 = not text and not cfg.get('direct') and rng.random() < 0.3
    if l2:
        cfg['l2'] = rng.choice(['stdout', 'stderr'])      # the handlers behind a child's output dispatcher
    pay = Payload()
    ops = []
    base = mb or 6
    for _ in range(rng.randrange(4, 36)):
        r = rng.random()
        if mix == 'w' or r < 0.62 or (mix == 'wr' and r >= 0.8) or (mix == 'wrc' and r >= 0.86):
            if text:
                m = ''.join(rng.choice('abcxyz ') for _ in range(rng.choice([0, 1, 2, base - 7, base - 6, base - 5, base, 2 * base]) if base > 7 else 1))
                ops.append(('write', ('INFO ' + m + '\n').encode()))
            else:
                sz = rng.choice([0, 1, 1, 2, base - 1, base, base + 1, 2 * base, 2 * base + 1, rng.randrange(0, base + 3)])
                ops.append(('write', pay.take(max(sz, 1 if l2 else 0))))   # an empty read is EOF for a dispatcher
        elif r < 0.72:
            ops.append(('reopen',))
        elif r < 0.8:
            ops.append(('clear',) if mix in ('wrc', 'ext') else ('reopen',))
        elif mix == 'ext':
            i = rng.randrange(0, N + 2)
            if rng.random() < 0.6:
                ops.append(('extremove', i))
            else:
                ops.append(('extreplace', i, bytes(rng.choice(b'XYZ') for _ in range(rng.choice([0, 1, base - 1, base, base + 2])))))
        else:
            ops.append(('reopen',))
    return cfg, ops


BEGIN, END = b'<!--XSUPERVISOR:BEGIN-->', b'<!--XSUPERVISOR:END-->'


class PlainPayload(Payload):
    """counter bytes without '<' (no accidental tag prefixes), for streams that go through capture-tag matching"""
    def take(self, n):
        b = bytes((self.c + i) % 190 + 61 for i in range(n))
        self.c += n
        return b


def gen_capture_case(rng):
    """a child's log behind a dispatcher with capture enabled: clear / reopen / external interference happen both in
    ordinary mode and inside a capture section"""
    mb = rng.choice([30, 64, 100]) if rng.random() < 0.9 else 0
    N = rng.choice([0, 1, 2])
    cfg = {'rotating': mb > 0, 'maxbytes': mb, 'backups': N, 'l2': rng.choice(['stdout', 'stderr']), 'capture': rng.choice([10, 50])}
    pay = PlainPayload()
    ops, mode = [], False
    for _ in range(rng.randrange(6, 26)):
        r = rng.random()
        if r < 0.5:
            if not mode:
                d = pay.take(rng.choice([1, 5, 24, 25, 26, 40, 70]))
                if rng.random() < 0.45:
                    d += BEGIN + b'C' * rng.randrange(1, 12); mode = True
            else:
                d = b'C' * rng.randrange(1, 30)
                if rng.random() < 0.55:
                    d += END + pay.take(rng.choice([1, 5, 26, 40])); mode = False
            ops.append(('chunk', d))
        elif r < 0.64:
            ops.append(('reopen',))
        elif r < 0.74:
            ops.append(('clear',))
        else:
            i = 0 if rng.random() < 0.7 else rng.randrange(0, N + 2)
            ops.append(('extremove', i) if rng.random() < 0.6 else ('extreplace', i, b'X' * rng.choice([0, 3, mb or 7])))
            if rng.random() < 0.75:
                ops.append(('reopen',) if rng.random() < 0.7 else ('clear',))
    return cfg, ops


def C(s):
    return ('chunk', s if isinstance(s, bytes) else s.encode())


def W(s):
    return ('write', s if isinstance(s, bytes) else s.encode())


CORPUS = [
    # test_loggers.py's sequence: maxBytes=10, backupCount=2
    ({'rotating': True, 'maxbytes': 10, 'backups': 2}, [W('a' * 4), W('a' * 4), W('a' * 4), W('a' * 4), W('a' * 4), W('a' * 4), W('a' * 4)]),
    # writes of exactly maxbytes, larger than maxbytes, empty
    ({'rotating': True, 'maxbytes': 5, 'backups': 2}, [W('01234'), W(''), W('0123456789ab'), W('x'), W('yyyy'), W('z')]),
    # backups = 0: the log is emptied when it reaches maxbytes
    ({'rotating': True, 'maxbytes': 4, 'backups': 0}, [W('abc'), W('d'), W('efghi'), W('j')]),
    # maxbytes = 0 through handle_file (plain handler) and through RotatingFileHandler directly
    ({'rotating': False, 'maxbytes': 0, 'backups': 3}, [W('abc'), W('d' * 50), ('reopen',), W('e')]),
    ({'rotating': True, 'maxbytes': 0, 'backups': 3, 'direct': True}, [W('abc'), W('d' * 50), ('reopen',), W('e'), ('clear',), W('f')]),
    # clearProcessLogs / SIGUSR2 in the middle of a rotation history
    ({'rotating': True, 'maxbytes': 5, 'backups': 2}, [W('abcdef'), W('gh'), ('clear',), W('ij'), ('reopen',), W('klmnop'), W('q')]),
    # clearLog: options.remove(logfile) behind the handler, an info() line, then reopen()
    ({'rotating': True, 'maxbytes': 8, 'backups': 1}, [W('abc'), ('extremove', 0), W('reopening'), ('reopen',), W('def')]),
    # a cleanup script removes the active log / a backup in the middle; logrotate replaces the log
    ({'rotating': True, 'maxbytes': 5, 'backups': 3}, [W('abcde'), W('fghij'), W('klmno'), ('extremove', 2), W('pqrst'), W('uvwxy'), ('extremove', 0), W('12'), W('34567'), W('8')]),
    ({'rotating': True, 'maxbytes': 5, 'backups': 2}, [W('abc'), ('extreplace', 0, b'XX'), W('de'), W('f'), ('reopen',), W('gh'), W('i')]),
    ({'rotating': True, 'maxbytes': 3, 'backups': 1}, [W('abc'), ('extreplace', 2, b'ZZZZ'), W('def'), ('extreplace', 1, b''), W('ghi')]),
    # through a child's output dispatcher: chunks, clearProcessLogs (removelogs), SIGUSR2 (reopenlogs)
    ({'rotating': True, 'maxbytes': 6, 'backups': 2, 'l2': 'stdout'}, [W('abcd'), W('efgh'), ('clear',), W('ijklmnop'), ('reopen',), W('q'), ('extremove', 0), W('rs'), ('reopen',), W('tuvwxyz')]),
    ({'rotating': True, 'maxbytes': 4, 'backups': 1, 'l2': 'stderr'}, [W('abc'), W('defgh'), W('i'), ('reopen',), W('jkl'), ('clear',), W('m')]),
    ({'rotating': False, 'maxbytes': 0, 'backups': 2, 'l2': 'stdout'}, [W('abc'), W('d' * 30), ('reopen',), W('e'), ('clear',), W('f')]),
    # capture enabled; SIGUSR2 / clearProcessLogs arrive *inside* a capture section after the log was removed or
    # replaced from outside: the normal log must be reopened (seeded bug: reopenlogs() walking only childlog.handlers)
    ({'rotating': True, 'maxbytes': 40, 'backups': 1, 'l2': 'stdout', 'capture': 50},
     [C(b'a' * 30), C(b'b' * 5 + BEGIN + b'CCC'), ('extremove', 0), ('reopen',), C(b'CC' + END + b'd' * 35), C(b'e' * 30)]),
    ({'rotating': True, 'maxbytes': 40, 'backups': 1, 'l2': 'stderr', 'capture': 50},
     [C(b'a' * 30), C(b'b' * 5 + BEGIN + b'CCC'), ('extreplace', 0, b'XXX'), ('clear',), C(b'CC' + END + b'd' * 35), C(b'e' * 30)]),
    ({'rotating': True, 'maxbytes': 64, 'backups': 2, 'l2': 'stdout', 'capture': 10},
     [C(b'a' * 70), ('reopen',), C(b'b' * 26 + BEGIN + b'C'), ('reopen',), ('clear',), C(b'C' + END + b'c' * 30), ('extremove', 0), ('reopen',), C(b'd' * 40)]),
    ({'rotating': False, 'maxbytes': 0, 'backups': 0, 'l2': 'stdout', 'capture': 10},
     [C(b'a' * 30 + BEGIN + b'C'), ('extremove', 0), ('reopen',), C(b'C' + END + b'b' * 30), C(b'c' * 30)]),
    # activity-log style formatting (text message, encoded by the handler)
    ({'rotating': True, 'maxbytes': 16, 'backups': 1, 'text': True}, [W('INFO hello\n'), W('INFO world\n'), W('INFO \n')]),
]


def run(ctx):
    rng = ctx.rng
    R = Runner(ctx)
    for cfg, ops in CORPUS:
        R.one(dict(cfg), list(ops))
        ctx.count('corpus')
    # small-scope exhaustive: every sequence of up to 4 writes with sizes around maxbytes, small configurations
    import itertools
    depth = 3 if ctx.tier == 'quick' else 4
    for mb in (1, 3):
        for N in (0, 1, 2):
            for sizes in itertools.product([0, 1, mb - 1, mb, mb + 1, 2 * mb + 1], repeat=depth):
                pay = Payload()
                R.one({'rotating': True, 'maxbytes': mb, 'backups': N}, [('write', pay.take(s)) for s in sizes])
                ctx.count('exhaustive')
    for mix, share in (('w', 2), ('wr', 2), ('wrc', 3), ('ext', 3)):
        for _ in range(ctx.n(120, 2500) * share // 2):
            cfg, ops = gen_case(rng, mix)
            R.one(cfg, ops)
            ctx.count('mix:' + mix)
    for _ in range(ctx.n(150, 2500)):
        cfg, ops = gen_capture_case(rng)
        R.one(cfg, ops)
        ctx.count('mix:capture')
    for k in (0, 5, 7, len(R.cases) - 1):
        ctx.sample({'case': R.cases[k][0], 'ops': R.cases[k][1][:6], 'impl': R.impls[k][:6]})
    ctx.correspond('rotate', R.cases, R.impls)


def replay(ctx, data):
    inp = data['input']
    Runner(ctx).one(inp['cfg'], [unlist_op(l) for l in inp['ops']])


# ---- MANIFEST metadata -----------------------------------------------------------------------
TECHNIQUE = ("Lean 4 invariants by induction over operation sequences on a model of FileHandler/RotatingFileHandler over an "
             "abstract file system whose comparisons, loop bounds, name-index arithmetic, errno tests and open modes are "
             "regenerated from loggers.py; differential correspondence against the real handlers in a scratch directory")
LEVEL_TEXT = ("files_bounded, suffix_no_gap, segments_ordered (all five operation kinds), backups_full, live_short, backups0_truncates, maxbytes0_never and "
              "clear_reopen_safe are proved for every operation sequence, every maxbytes/backups and every payload; the model is "
              "run against the real handlers on a regression corpus, all short write sequences around maxbytes and random "
              "interleavings with clears, reopens and external removals/replacements")
LEVEL_NOTE = "trusts Lean's kernel, extract.py, the abstract file system (unlink/rename/open semantics); see DESIGN.md C19"
DESIGN_REF = "DESIGN.md section 6, C19"
