import SupervisorModel.Model.Listener
/-
  Helper lemmas about the listener parser (Model/Listener.lean): list facts, the well-formedness
  invariant, the termination measure, fuel irrelevance and the one-step commutation facts from
  which `Props.C10.fragmentation_invariant` follows.
-/
set_option linter.unusedSimpArgs false
set_option linter.unusedVariables false
namespace Sv.Listener
open Sv.Gen.Listener

/-! ### list facts -/

theorem findNL_lt : ∀ (a : Bytes) (k : Nat), findNL a = some k → k < a.length
  | [], k, h => by simp [findNL] at h
  | c :: cs, k, h => by
    simp only [findNL] at h
    split at h
    · simp at h; subst h; simp
    · cases hc : findNL cs with
      | none => simp [hc] at h
      | some j =>
        simp [hc] at h; subst h
        have := findNL_lt cs j hc
        simp; omega

theorem findNL_append_some : ∀ (a x : Bytes) (k : Nat), findNL a = some k → findNL (a ++ x) = some k
  | [], x, k, h => by simp [findNL] at h
  | c :: cs, x, k, h => by
    simp only [findNL, List.cons_append] at h ⊢
    split
    · rename_i hc; simp [hc] at h; simp [h]
    · rename_i hc
      simp [hc] at h
      cases hcs : findNL cs with
      | none => simp [hcs] at h
      | some j => simp [hcs] at h; simp [findNL_append_some cs x j hcs, h]

theorem isPrefixOf_append_of_le (t a x : Bytes) (h : t.length ≤ a.length) :
    t.isPrefixOf (a ++ x) = t.isPrefixOf a := by
  induction t generalizing a with
  | nil => simp
  | cons c t ih =>
    cases a with
    | nil => simp at h
    | cons d a =>
      simp only [List.cons_append, List.isPrefixOf]
      rw [ih a (by simpa using h)]


/-! ### `stepP` in closed form (this is where the generated definitions are unfolded) -/

/-- the header line check: `RESULT ` + a non-negative Python integer -/
def headerLenC (line : Bytes) : Option Int :=
  if RESULT_TOKEN_START.isPrefixOf line then
    match parseInt (line.drop 7) with
    | none => none
    | some n => if n < 0 then none else some n
  else none

def toUnknown (p : Lst) : Lst := { p with ls := .UNKNOWN, buf := [], event := none }

/-- the pending result takes what it still needs from the buffer -/
def takeBody (p : Lst) (n : Int) : Lst :=
  { p with result := p.result ++ p.buf.take (n - (p.result.length : Int)).toNat,
           buf := p.buf.drop (n - (p.result.length : Int)).toNat }

def bodyC (h : Bytes → HRes) (p : Lst) (n : Int) : StepR :=
  if n - (p.result.length : Int) < 0 then { p := p, err := some .negSlice }
  else if n - ((takeBody p n).result.length : Int) = 0 then
    { handled h (takeBody p n) with again := !(takeBody p n).buf.isEmpty }
  else { p := takeBody p n, again := !(takeBody p n).buf.isEmpty }

/-- the state right after a good header line: the line is consumed, the length is known -/
def afterHeader (p : Lst) (pos : Nat) (n : Int) : Lst :=
  { p with buf := p.buf.drop (pos + 1), resultlen := some n }

def headerC (h : Bytes → HRes) (p : Lst) : StepR :=
  match findNL p.buf with
  | none => { p := p }
  | some pos =>
    match headerLenC (p.buf.take pos) with
    | some n => bodyC h (afterHeader p pos n) n       -- the result is gathered in the same call
    | none => { p := toUnknown p, outs := [.lstate p.ls .UNKNOWN, .rejected p.event] }

def ackC (p : Lst) : StepR :=
  if p.buf.length < 6 then { p := p }
  else if READY_FOR_EVENTS_TOKEN.isPrefixOf p.buf then
    { p := { p with ls := .READY, buf := p.buf.drop 6, event := none },
      outs := [.lstate p.ls .READY], again := !(p.buf.drop 6).isEmpty }
  else { p := toUnknown p, outs := [.lstate p.ls .UNKNOWN] }

def stepC (h : Bytes → HRes) (p : Lst) : StepR :=
  if p.buf = [] then { p := p }
  else match p.ls with
  | .UNKNOWN => { p := { p with buf := [] } }
  | .ACKNOWLEDGED => ackC p
  | .READY => { p := toUnknown p, outs := [.lstate p.ls .UNKNOWN] }
  | .BUSY =>
    match p.resultlen with
    | none => headerC h p
    | some n => bodyC h p n

theorem headerLen_eq (p : Lst) (line : Bytes) : headerLen p line = headerLenC line := by
  unfold headerLen headerLenC
  simp only [hlsc_g10, hlsc_a15, hlsc_g11, hlsc_a16, hlsc_a17, RESULT_TOKEN_START_LEN, pySliceFrom]
  have h7 : Int.toNat 7 = 7 := rfl
  rw [h7]
  by_cases hpre : RESULT_TOKEN_START.isPrefixOf line = true
  · simp only [hpre, Bool.not_true, if_true]
    cases parseInt (List.drop 7 line) <;> simp
  · simp only [hpre, Bool.not_eq_true] at *
    simp [hpre]

theorem pyFind_eq (b : Bytes) : pyFind b = match findNL b with | none => -1 | some k => (k : Int) := rfl

@[simp] theorem handled_buf (h : Bytes → HRes) (p : Lst) : (handled h p).p.buf = p.buf := by
  unfold handled; cases h p.result <;> simp [afterResult]
@[simp] theorem handled_err (h : Bytes → HRes) (p : Lst) : (handled h p).err = none := by
  unfold handled; cases h p.result <;> simp
@[simp] theorem handled_again (h : Bytes → HRes) (p : Lst) : (handled h p).again = false := by
  unfold handled; cases h p.result <;> simp

theorem bodyStep_eq (h : Bytes → HRes) (p : Lst) (n : Int) :
    bodyStep h p n = bodyC h p n := by
  unfold bodyStep bodyC takeBody
  simp only [hbody_a22, hlsc_g13, hlsc_a23, hlsc_a24, hbody_a25, hlsc_g14, gMore15, hlsc_g15, pySliceTo, pySliceFrom,
    bne_iff_ne, ne_eq, Bool.not_eq_true', beq_iff_eq, Bool.not_not, decide_eq_true_eq, ite_not]
  by_cases h0 : n - (p.result.length : Int) = 0
  · have hk : (n - (p.result.length : Int)).toNat = 0 := by omega
    simp [h0, hk]
  · simp [h0]

theorem busyTail_some (h : Bytes → HRes) (q : Lst) (n : Int) (hq : q.resultlen = some n) :
    busyTail h q = bodyC h q n := by
  simp [busyTail, hlsc_g12, hq, bodyStep_eq]

theorem stepP_eq (h : Bytes → HRes) (p : Lst) : stepP h p = stepC h p := by
  unfold stepP stepC ackC headerC
  by_cases hb : p.buf = []
  · simp [gNoData, hlsc_g0, hb]
  · have hb' : p.buf.isEmpty = false := by simpa using hb
    simp only [gNoData, hlsc_g0, hb, hb', if_false, Bool.not_false, Bool.not_true]
    cases hls : p.ls <;>
      simp only [gUnknown, gAck, gReady, gBusy, hlsc_g1, hlsc_g2, hlsc_g6, hlsc_g7, LS.code, hls] <;> simp
    · -- READY
      simp [toUnknown, hlsc_a10, hls]
    · -- BUSY
      cases hrl : p.resultlen with
      | none =>
        simp only [gNoLen, hlsc_g8, hrl, Option.isNone_none, if_true, gNoNL, hlsc_g9, pyFind_eq]
        rcases Option.eq_none_or_eq_some (findNL p.buf) with hf | ⟨pos, hf⟩
        · simp [hf]
        · simp only [hf]
          have hne : ((pos : Int) == -1) = false := by
            simp
          simp only [hne, Bool.false_eq_true, if_false, headerLen_eq, hlsc_a13, hlsc_a14, pySliceTo, pySliceFrom,
            Int.toNat_natCast, hlsc_a20, toUnknown, hls]
          have h1 : ((pos : Int) + 1).toNat = pos + 1 := by omega
          rw [h1]
          cases hh : headerLenC (List.take pos p.buf) with
          | none => simp [hrl]
          | some n =>
            simp only []
            rw [busyTail_some h _ n rfl]
            simp [afterHeader, hls]
      | some n =>
        simp only [gNoLen, hlsc_g8, hrl, Option.isNone_some, Bool.false_eq_true, if_false]
        rw [busyTail_some h p n hrl]
    · -- ACKNOWLEDGED
      simp only [gShort, hlsc_g3, gReadyTok, hlsc_g4, gMore5, hlsc_g5, hlsc_a6, hlsc_a8, READY_FOR_EVENTS_LEN,
        pySliceFrom, toUnknown, hls, ilt_iff]
      have h6 : Int.toNat 6 = 6 := rfl
      rw [h6]
      by_cases hl : p.buf.length < 6
      · have : (p.buf.length : Int) < 6 := by omega
        simp [hl, this]
      · have : ¬ (p.buf.length : Int) < 6 := by omega
        simp only [hl, this, if_false]
        by_cases hp : READY_FOR_EVENTS_TOKEN.isPrefixOf p.buf = true
        · simp [hp, List.isPrefixOf_iff_prefix.mp hp]
        · have hp' : ¬ READY_FOR_EVENTS_TOKEN <+: p.buf := fun hh => hp (List.isPrefixOf_iff_prefix.mpr hh)
          simp [hp, hp']
    · -- UNKNOWN
      simp [hlsc_a4]


/-- the parser's data invariant: a pending result never exceeds the announced length -/
def Wf (p : Lst) : Prop :=
  match p.resultlen with
  | none => p.result = []
  | some n => (p.result.length : Int) ≤ n

def app (p : Lst) (x : Bytes) : Lst := { p with buf := p.buf ++ x }

@[simp] theorem app_nil (p : Lst) : app p [] = p := by simp [app]
@[simp] theorem app_buf (p : Lst) (x : Bytes) : (app p x).buf = p.buf ++ x := rfl
@[simp] theorem app_ls (p : Lst) (x : Bytes) : (app p x).ls = p.ls := rfl
@[simp] theorem app_resultlen (p : Lst) (x : Bytes) : (app p x).resultlen = p.resultlen := rfl
@[simp] theorem app_result (p : Lst) (x : Bytes) : (app p x).result = p.result := rfl
@[simp] theorem app_event (p : Lst) (x : Bytes) : (app p x).event = p.event := rfl
theorem app_wf (p : Lst) (x : Bytes) : Wf (app p x) ↔ Wf p := by simp [Wf]

theorem headerLenC_nonneg (line : Bytes) (n : Int) (h : headerLenC line = some n) : 0 ≤ n := by
  unfold headerLenC at h
  split at h
  · split at h
    · simp at h
    · rename_i m hm
      split at h
      · simp at h
      · simp at h; omega
  · simp at h

@[simp] theorem handled_resultlen (h : Bytes → HRes) (p : Lst) : (handled h p).p.resultlen = none := by
  unfold handled; cases h p.result <;> simp [afterResult]
@[simp] theorem handled_result (h : Bytes → HRes) (p : Lst) : (handled h p).p.result = [] := by
  unfold handled; cases h p.result <;> simp [afterResult, hlsc_a27]

theorem takeBody_len (p : Lst) (n : Int) (hn : (p.result.length : Int) ≤ n) :
    ((takeBody p n).result.length : Int) ≤ n := by
  simp [takeBody]; omega

theorem ackC_wf (p : Lst) (hw : Wf p) : (ackC p).err = none ∧ Wf (ackC p).p := by
  unfold ackC
  repeat' split
  all_goals simp_all [Wf, toUnknown]

theorem bodyC_wf (h : Bytes → HRes) (p : Lst) (n : Int) (hw : Wf p) (hr : p.resultlen = some n) :
    (bodyC h p n).err = none ∧ Wf (bodyC h p n).p := by
  have hn : (p.result.length : Int) ≤ n := by simpa [Wf, hr] using hw
  unfold bodyC
  split
  · omega
  · split
    · simp [Wf]
    · refine ⟨rfl, ?_⟩
      have := takeBody_len p n hn
      simp only [Wf]
      have h2 : (takeBody p n).resultlen = some n := by simp [takeBody, hr]
      simp [h2]; exact this

theorem afterHeader_wf (p : Lst) (pos : Nat) (n : Int) (hw : Wf p) (hr : p.resultlen = none) (hn : 0 ≤ n) :
    Wf (afterHeader p pos n) := by
  have : p.result = [] := by simpa [Wf, hr] using hw
  simp [Wf, afterHeader, this, hn]

theorem headerC_wf (h : Bytes → HRes) (p : Lst) (hw : Wf p) (hr : p.resultlen = none) :
    (headerC h p).err = none ∧ Wf (headerC h p).p := by
  rcases Option.eq_none_or_eq_some (findNL p.buf) with hf | ⟨pos, hf⟩
  · simp only [headerC, hf]; exact ⟨trivial, hw⟩
  · rcases Option.eq_none_or_eq_some (headerLenC (p.buf.take pos)) with hh | ⟨n, hh⟩
    · simp only [headerC, hf, hh]; exact ⟨trivial, by simpa [Wf, toUnknown] using hw⟩
    · simp only [headerC, hf, hh]
      exact bodyC_wf h _ n (afterHeader_wf p pos n hw hr (headerLenC_nonneg _ _ hh)) rfl

theorem stepC_nil (h : Bytes → HRes) (p : Lst) (hb : p.buf = []) : stepC h p = { p := p } := by simp [stepC, hb]
theorem stepC_unknown (h : Bytes → HRes) (p : Lst) (hb : p.buf ≠ []) (hl : p.ls = .UNKNOWN) :
    stepC h p = { p := { p with buf := [] } } := by simp [stepC, hb, hl]
theorem stepC_ack (h : Bytes → HRes) (p : Lst) (hb : p.buf ≠ []) (hl : p.ls = .ACKNOWLEDGED) :
    stepC h p = ackC p := by simp [stepC, hb, hl]
theorem stepC_ready (h : Bytes → HRes) (p : Lst) (hb : p.buf ≠ []) (hl : p.ls = .READY) :
    stepC h p = { p := toUnknown p, outs := [.lstate p.ls .UNKNOWN] } := by simp [stepC, hb, hl]
theorem stepC_header (h : Bytes → HRes) (p : Lst) (hb : p.buf ≠ []) (hl : p.ls = .BUSY) (hr : p.resultlen = none) :
    stepC h p = headerC h p := by simp [stepC, hb, hl, hr]
theorem stepC_body (h : Bytes → HRes) (p : Lst) (n : Int) (hb : p.buf ≠ []) (hl : p.ls = .BUSY) (hr : p.resultlen = some n) :
    stepC h p = bodyC h p n := by simp [stepC, hb, hl, hr]

theorem stepC_wf (h : Bytes → HRes) (p : Lst) (hw : Wf p) : (stepC h p).err = none ∧ Wf (stepC h p).p := by
  by_cases hb : p.buf = []
  · rw [stepC_nil h p hb]; exact ⟨rfl, hw⟩
  · cases hl : p.ls
    · rw [stepC_ready h p hb hl]; exact ⟨rfl, by simpa [Wf, toUnknown] using hw⟩
    · rcases Option.eq_none_or_eq_some p.resultlen with hr | ⟨n, hr⟩
      · rw [stepC_header h p hb hl hr]; exact headerC_wf h p hw hr
      · rw [stepC_body h p n hb hl hr]; exact bodyC_wf h p n hw hr
    · rw [stepC_ack h p hb hl]; exact ackC_wf p hw
    · rw [stepC_unknown h p hb hl]; exact ⟨rfl, by simpa [Wf] using hw⟩

/-! measure -/
theorem ackC_mu (p : Lst) (ha : (ackC p).again = true) : mu (ackC p).p < mu p := by
  by_cases h1 : p.buf.length < 6
  · simp [ackC, h1] at ha
  · by_cases h2 : READY_FOR_EVENTS_TOKEN.isPrefixOf p.buf = true
    · simp only [ackC, h1, h2, if_true, if_false, mu, List.length_drop]
      split <;> omega
    · simp [ackC, h1, h2] at ha

theorem bodyC_mu (h : Bytes → HRes) (p : Lst) (n : Int) (hb : p.buf ≠ []) (hr : p.resultlen = some n)
    (ha : (bodyC h p n).again = true) : mu (bodyC h p n).p < mu p := by
  have hbl : 0 < p.buf.length := List.length_pos_iff.mpr hb
  by_cases h1 : n - (p.result.length : Int) < 0
  · simp [bodyC, h1] at ha
  · by_cases h2 : n - ((takeBody p n).result.length : Int) = 0
    · simp only [bodyC, h1, h2, if_true, if_false, mu, handled_resultlen, handled_buf, hr]
      simp [takeBody]; omega
    · simp only [bodyC, h1, h2, if_true, if_false, mu, hr]
      have h3 : (takeBody p n).resultlen = some n := by simp [takeBody, hr]
      simp only [h3]
      simp [takeBody] at h2 ⊢
      omega

theorem bodyC_again_nil (h : Bytes → HRes) (q : Lst) (n : Int) (hq : q.buf = []) : (bodyC h q n).again = false := by
  unfold bodyC
  split
  · rfl
  · split <;> simp [takeBody, hq]

theorem headerC_mu (h : Bytes → HRes) (p : Lst) (hr : p.resultlen = none) (ha : (headerC h p).again = true) :
    mu (headerC h p).p < mu p := by
  rcases Option.eq_none_or_eq_some (findNL p.buf) with hf | ⟨pos, hf⟩
  · simp [headerC, hf] at ha
  · have := findNL_lt _ _ hf
    rcases Option.eq_none_or_eq_some (headerLenC (p.buf.take pos)) with hh | ⟨n, hh⟩
    · simp [headerC, hf, hh] at ha
    · simp only [headerC, hf, hh] at ha ⊢
      by_cases hq : (afterHeader p pos n).buf = []
      · rw [bodyC_again_nil h _ n hq] at ha; cases ha
      · have h1 := bodyC_mu h _ n hq rfl ha
        have h2 : mu (afterHeader p pos n) < mu p := by
          simp [mu, afterHeader, hr]; omega
        omega

theorem stepC_mu (h : Bytes → HRes) (p : Lst) (ha : (stepC h p).again = true) : mu (stepC h p).p < mu p := by
  by_cases hb : p.buf = []
  · rw [stepC_nil h p hb] at ha; simp at ha
  · cases hl : p.ls
    · rw [stepC_ready h p hb hl] at ha; simp at ha
    · rcases Option.eq_none_or_eq_some p.resultlen with hr | ⟨n, hr⟩
      · rw [stepC_header h p hb hl hr] at ha ⊢; exact headerC_mu h p hr ha
      · rw [stepC_body h p n hb hl hr] at ha ⊢; exact bodyC_mu h p n hb hr ha
    · rw [stepC_ack h p hb hl] at ha ⊢; exact ackC_mu p ha
    · rw [stepC_unknown h p hb hl] at ha; simp at ha

/-! the recursion -/
theorem runHL_succ (h : Bytes → HRes) (k : Nat) (s : S) (he : s.err = none) :
    runHL h (k + 1) s =
      if (stepC h s.p).again then
        runHL h k { p := (stepC h s.p).p, outs := s.outs ++ (stepC h s.p).outs, err := (stepC h s.p).err }
      else { p := (stepC h s.p).p, outs := s.outs ++ (stepC h s.p).outs, err := (stepC h s.p).err } := by
  simp [runHL, he, stepP_eq]

theorem runHL_fuel (h : Bytes → HRes) : ∀ (k k' : Nat) (s : S), s.err = none → Wf s.p → mu s.p < k → mu s.p < k' →
    runHL h k s = runHL h k' s := by
  intro k
  induction k with
  | zero => intro k' s _ _ hk; omega
  | succ k ih =>
    intro k' s he hw hk hk'
    cases k' with
    | zero => omega
    | succ k' =>
      rw [runHL_succ h k s he, runHL_succ h k' s he]
      by_cases ha : (stepC h s.p).again = true
      · simp only [ha, if_true]
        have hm := stepC_mu h s.p ha
        have hwf := stepC_wf h s.p hw
        exact ih k' _ hwf.1 hwf.2 (by simp; omega) (by simp; omega)
      · simp [ha]

theorem runHL_ok (h : Bytes → HRes) : ∀ (k : Nat) (s : S), s.err = none → Wf s.p → mu s.p < k →
    (runHL h k s).err = none ∧ Wf (runHL h k s).p := by
  intro k
  induction k with
  | zero => intro s _ _ hk; omega
  | succ k ih =>
    intro s he hw hk
    rw [runHL_succ h k s he]
    have hwf := stepC_wf h s.p hw
    by_cases ha : (stepC h s.p).again = true
    · simp only [ha, if_true]
      have hm := stepC_mu h s.p ha
      exact ih _ hwf.1 hwf.2 (by simp; omega)
    · simp [ha, hwf.1, hwf.2]


/-- how one call body relates to the same call body with more bytes behind the buffer -/
inductive Cls (h : Bytes → HRes) (p : Lst) (x : Bytes) : Prop
  | again : (stepC h p).again = true → stepC h (app p x) = { stepC h p with p := app (stepC h p).p x } → Cls h p x
  | wait : stepC h p = { p := p } → Cls h p x
  | unk : (stepC h p).again = false → (stepC h p).p.ls = .UNKNOWN → (stepC h p).p.buf = [] →
      stepC h (app p x) = stepC h p → Cls h p x
  | yld : (stepC h p).again = false → (stepC h p).p.buf = [] → mu (stepC h p).p < mu p →
      stepC h (app p x) = { stepC h p with p := app (stepC h p).p x, again := !x.isEmpty } → Cls h p x
  | part : (stepC h p).again = false → (stepC h p).outs = [] → (stepC h p).p.buf = [] →
      (x ≠ [] → stepC h (app p x) = stepC h (app (stepC h p).p x)) → Cls h p x

theorem app_buf_ne (p : Lst) (x : Bytes) (hb : p.buf ≠ []) : (app p x).buf ≠ [] := by
  simp [app, hb]

theorem cls_ack (h : Bytes → HRes) (p : Lst) (x : Bytes) (hb : p.buf ≠ []) (hl : p.ls = .ACKNOWLEDGED) : Cls h p x := by
  have hb' := app_buf_ne p x hb
  have hl' : (app p x).ls = .ACKNOWLEDGED := hl
  by_cases h1 : p.buf.length < 6
  · apply Cls.wait; rw [stepC_ack h p hb hl]; simp [ackC, h1]
  · have e1 : READY_FOR_EVENTS_TOKEN.isPrefixOf (p.buf ++ x) = READY_FOR_EVENTS_TOKEN.isPrefixOf p.buf :=
      isPrefixOf_append_of_le _ _ _ (by simp [READY_FOR_EVENTS_TOKEN]; omega)
    have e2 : (p.buf ++ x).drop 6 = p.buf.drop 6 ++ x := List.drop_append_of_le_length (by omega)
    have e3 : ¬ (p.buf ++ x).length < 6 := by simp; omega
    by_cases h2 : READY_FOR_EVENTS_TOKEN.isPrefixOf p.buf = true
    · by_cases h3 : p.buf.drop 6 = []
      · apply Cls.yld
        · rw [stepC_ack h p hb hl]; simp [ackC, h1, h2, h3]
        · rw [stepC_ack h p hb hl]; simp [ackC, h1, h2, h3]
        · rw [stepC_ack h p hb hl]; simp [ackC, h1, h2, h3, mu]; omega
        · rw [stepC_ack h p hb hl, stepC_ack h _ hb' hl']
          simp only [ackC, app_buf, e1, e2, e3, h1, h2, h3, if_true, if_false]
          simp [app, h3]
      · apply Cls.again
        · rw [stepC_ack h p hb hl]; simp [ackC, h1, h2, h3]
        · rw [stepC_ack h p hb hl, stepC_ack h _ hb' hl']
          simp only [ackC, app_buf, e1, e2, e3, h1, h2, if_true, if_false]
          have e4 : (p.buf.drop 6 ++ x).isEmpty = (p.buf.drop 6).isEmpty := by
            cases hd : p.buf.drop 6 <;> simp_all
          simp [app, h3, e4]
    · apply Cls.unk
      · rw [stepC_ack h p hb hl]; simp [ackC, h1, h2]
      · rw [stepC_ack h p hb hl]; simp [ackC, h1, h2, toUnknown]
      · rw [stepC_ack h p hb hl]; simp [ackC, h1, h2, toUnknown]
      · rw [stepC_ack h p hb hl, stepC_ack h _ hb' hl']
        simp only [ackC, app_buf, e1, e3, h1, h2, if_false]
        simp [app, toUnknown]


theorem isEmpty_append_left (a x : Bytes) (ha : a ≠ []) : (a ++ x).isEmpty = a.isEmpty := by
  cases a <;> simp_all

/-- `bodyC` after its first test, as a function of the state that took its share of the buffer -/
def bodyK (h : Bytes → HRes) (q : Lst) (n : Int) : StepR :=
  if n - (q.result.length : Int) = 0 then { handled h q with again := !q.buf.isEmpty }
  else { p := q, again := !q.buf.isEmpty }

theorem bodyC_eq_K (h : Bytes → HRes) (p : Lst) (n : Int) (hn : ¬ n - (p.result.length : Int) < 0) :
    bodyC h p n = bodyK h (takeBody p n) n := by
  simp [bodyC, bodyK, hn]

theorem takeBody_app_small (p : Lst) (x : Bytes) (n : Int)
    (hk : (n - (p.result.length : Int)).toNat ≤ p.buf.length) :
    takeBody (app p x) n = app (takeBody p n) x := by
  simp only [takeBody, app]
  rw [List.take_append_of_le_length hk, List.drop_append_of_le_length hk]

theorem takeBody_app_big (p : Lst) (x : Bytes) (n : Int) (hn : (p.result.length : Int) ≤ n)
    (hk : p.buf.length ≤ (n - (p.result.length : Int)).toNat) :
    takeBody (app p x) n = takeBody (app (takeBody p n) x) n := by
  have t1 : p.buf.take (n - (p.result.length : Int)).toNat = p.buf := List.take_of_length_le hk
  have t2 : p.buf.drop (n - (p.result.length : Int)).toNat = [] := List.drop_of_length_le hk
  have e : (n - ((p.result ++ p.buf).length : Int)).toNat = (n - (p.result.length : Int)).toNat - p.buf.length := by
    simp; omega
  simp only [takeBody, app, t1, t2, List.take_append, List.drop_append, List.nil_append, e, List.append_assoc]

theorem handled_app (h : Bytes → HRes) (q : Lst) (x : Bytes) :
    handled h (app q x) = { handled h q with p := app (handled h q).p x } := by
  unfold handled
  simp only [app_result, app_event, app_ls]
  cases h q.result <;> simp [afterResult, app, hlsc_a27]

/-- classification of a call body that ends in the result-gathering part run on state `q`
    (`q = p` for a pending result, `q = afterHeader p …` right after a header line) -/
theorem cls_of_body (h : Bytes → HRes) (p q : Lst) (x : Bytes) (n : Int) (hpb : p.buf ≠ [])
    (hl : q.ls = .BUSY) (hr : q.resultlen = some n) (hn : (q.result.length : Int) ≤ n)
    (E1 : stepC h p = bodyC h q n) (E2 : stepC h (app p x) = bodyC h (app q x) n) : Cls h p x := by
  have hn' : ¬ n - (q.result.length : Int) < 0 := by omega
  have hn'' : ¬ n - ((app q x).result.length : Int) < 0 := by simpa using hn'
  have hpl : 0 < p.buf.length := List.length_pos_iff.mpr hpb
  by_cases hk : (n - (q.result.length : Int)).toNat ≤ q.buf.length
  · -- the result completes inside the present buffer
    have hc : n - ((takeBody q n).result.length : Int) = 0 := by simp [takeBody]; omega
    have e1 : stepC h p = { handled h (takeBody q n) with again := !(takeBody q n).buf.isEmpty } := by
      rw [E1, bodyC_eq_K h q n hn']; simp [bodyK, hc]
    have e2 : stepC h (app p x) =
        { handled h (app (takeBody q n) x) with again := !(app (takeBody q n) x).buf.isEmpty } := by
      rw [E2, bodyC_eq_K h _ n hn'', takeBody_app_small q x n hk]; simp [bodyK, hc]
    have e3 := handled_app h (takeBody q n) x
    by_cases h3 : (takeBody q n).buf = []
    · apply Cls.yld
      · rw [e1]; simp [h3]
      · rw [e1]; simp [h3]
      · rw [e1]; simp [h3, mu]; omega
      · rw [e2, e1, e3]; simp [h3]
    · apply Cls.again
      · rw [e1]; simp [h3]
      · rw [e2, e1, e3]; simp [h3, isEmpty_append_left _ x h3]
  · -- the buffer is swallowed whole and more is needed
    have hk' : q.buf.length ≤ (n - (q.result.length : Int)).toNat := by omega
    have t1 : q.buf.take (n - (q.result.length : Int)).toNat = q.buf := List.take_of_length_le hk'
    have t2 : q.buf.drop (n - (q.result.length : Int)).toNat = [] := List.drop_of_length_le hk'
    have hc : ¬ n - ((takeBody q n).result.length : Int) = 0 := by simp [takeBody, t1]; omega
    have e1 : stepC h p = { p := takeBody q n, again := false } := by
      rw [E1, bodyC_eq_K h q n hn']; simp [bodyK, hc]; simp [takeBody, t2] <;> omega
    apply Cls.part
    · rw [e1]
    · rw [e1]
    · rw [e1]; simp [takeBody, t2] <;> omega
    · intro hx
      rw [e1]
      have hb2 : (app (takeBody q n) x).buf ≠ [] := by simp [app, takeBody, t2, hx]
      have hl2 : (app (takeBody q n) x).ls = .BUSY := by simp [takeBody, hl]
      have hr2 : (app (takeBody q n) x).resultlen = some n := by simp [takeBody, hr]
      have hn2 : ¬ n - ((app (takeBody q n) x).result.length : Int) < 0 := by
        simp [takeBody, t1]; omega
      rw [E2, stepC_body h _ n hb2 hl2 hr2, bodyC_eq_K h _ n hn'', bodyC_eq_K h _ n hn2,
        takeBody_app_big q x n hn hk']

theorem cls_body (h : Bytes → HRes) (p : Lst) (x : Bytes) (n : Int) (hb : p.buf ≠ []) (hl : p.ls = .BUSY)
    (hr : p.resultlen = some n) (hw : Wf p) : Cls h p x :=
  cls_of_body h p p x n hb hl hr (by simpa [Wf, hr] using hw) (stepC_body h p n hb hl hr)
    (stepC_body h _ n (app_buf_ne p x hb) hl hr)

theorem cls_header (h : Bytes → HRes) (p : Lst) (x : Bytes) (hb : p.buf ≠ []) (hl : p.ls = .BUSY)
    (hr : p.resultlen = none) (hw : Wf p) : Cls h p x := by
  have hb' := app_buf_ne p x hb
  have hl' : (app p x).ls = .BUSY := hl
  have hr' : (app p x).resultlen = none := hr
  rcases Option.eq_none_or_eq_some (findNL p.buf) with hf | ⟨pos, hf⟩
  · apply Cls.wait; rw [stepC_header h p hb hl hr]; simp [headerC, hf]
  · have hlt := findNL_lt _ _ hf
    have f1 : findNL (p.buf ++ x) = some pos := findNL_append_some _ _ _ hf
    have f2 : (p.buf ++ x).take pos = p.buf.take pos := List.take_append_of_le_length (by omega)
    have f3 : (p.buf ++ x).drop (pos + 1) = p.buf.drop (pos + 1) ++ x := List.drop_append_of_le_length (by omega)
    rcases Option.eq_none_or_eq_some (headerLenC (p.buf.take pos)) with hh | ⟨n, hh⟩
    · apply Cls.unk
      · rw [stepC_header h p hb hl hr]; simp [headerC, hf, hh]
      · rw [stepC_header h p hb hl hr]; simp [headerC, hf, hh, toUnknown]
      · rw [stepC_header h p hb hl hr]; simp [headerC, hf, hh, toUnknown]
      · rw [stepC_header h p hb hl hr, stepC_header h _ hb' hl' hr']
        simp only [headerC, app_buf, f1, f2, hf, hh]
        simp [app, toUnknown]
    · have hres : p.result = [] := by simpa [Wf, hr] using hw
      have hn0 := headerLenC_nonneg _ _ hh
      have ea : afterHeader (app p x) pos n = app (afterHeader p pos n) x := by
        simp [afterHeader, app, f3]
      refine cls_of_body h p (afterHeader p pos n) x n hb (by simp [afterHeader, hl]) rfl
        (by simp [afterHeader, hres, hn0]) ?_ ?_
      · rw [stepC_header h p hb hl hr]; simp only [headerC, hf, hh]
      · rw [stepC_header h _ hb' hl' hr']; simp only [headerC, app_buf, f1, f2, hh, ← ea]

theorem stepC_cls (h : Bytes → HRes) (p : Lst) (x : Bytes) (hw : Wf p) : Cls h p x := by
  by_cases hb : p.buf = []
  · exact Cls.wait (stepC_nil h p hb)
  · cases hl : p.ls
    · -- READY
      have hb' := app_buf_ne p x hb
      apply Cls.unk
      · rw [stepC_ready h p hb hl]
      · rw [stepC_ready h p hb hl]; simp [toUnknown]
      · rw [stepC_ready h p hb hl]; simp [toUnknown]
      · rw [stepC_ready h p hb hl, stepC_ready h _ hb' hl]; simp [toUnknown, app]
    · rcases Option.eq_none_or_eq_some p.resultlen with hr | ⟨n, hr⟩
      · exact cls_header h p x hb hl hr hw
      · exact cls_body h p x n hb hl hr hw
    · exact cls_ack h p x hb hl
    · have hb' := app_buf_ne p x hb
      apply Cls.unk
      · rw [stepC_unknown h p hb hl]
      · rw [stepC_unknown h p hb hl]; simp [hl]
      · rw [stepC_unknown h p hb hl]
      · rw [stepC_unknown h p hb hl, stepC_unknown h _ hb' hl]; simp [app]


/-! ### the recursion commutes with bytes arriving later -/

def sapp (s : S) (x : Bytes) : S := { s with p := app s.p x }

theorem mu_app (p : Lst) (x : Bytes) : mu (app p x) = mu p + 2 * x.length := by
  show 2 * (p.buf ++ x).length + (if p.resultlen.isSome then 1 else 0)
     = 2 * p.buf.length + (if p.resultlen.isSome then 1 else 0) + 2 * x.length
  rw [List.length_append]; omega

theorem lst_buf_nil (q : Lst) (hq : q.buf = []) : ({ q with buf := [] } : Lst) = q := by
  cases q; simp_all

theorem sapp_nil (s : S) : sapp s [] = s := by cases s; simp [sapp]

theorem runHL_nil (h : Bytes → HRes) (k : Nat) (s : S) (he : s.err = none) (hb : s.p.buf = []) :
    runHL h (k + 1) s = s := by
  rw [runHL_succ h k s he, stepC_nil h s.p hb]
  cases s; simp_all

theorem run_append (h : Bytes → HRes) (x : Bytes) : ∀ (k : Nat) (s : S) (K K' : Nat),
    s.err = none → Wf s.p → mu s.p < k → mu (app s.p x) < K → mu (app (runHL h k s).p x) < K' →
    runHL h K (sapp s x) = runHL h K' (sapp (runHL h k s) x) := by
  intro k
  induction k with
  | zero => intro s K K' _ _ hk; omega
  | succ k ih =>
    intro s K K' he hw hk hK hK'
    have hwf := stepC_wf h s.p hw
    have hwa : Wf (app s.p x) := (app_wf _ _).mpr hw
    rw [runHL_succ h k s he] at hK' ⊢
    cases K with
    | zero => omega
    | succ K0 =>
    have hes : (sapp s x).err = none := he
    rw [runHL_succ h K0 (sapp s x) hes]
    have hp : (sapp s x).p = app s.p x := rfl
    have hoo : (sapp s x).outs = s.outs := rfl
    rw [hp, hoo]
    have hsa : ∀ t : S, sapp t x = { p := app t.p x, outs := t.outs, err := t.err } := fun t => rfl
    simp only [hsa]
    rcases stepC_cls h s.p x hw with ⟨ha, e⟩ | e | ⟨ha, hu, hbn, e⟩ | ⟨ha, hbn, hm, e⟩ | ⟨ha, ho, hbn, e⟩
    · -- again
      have hm := stepC_mu h s.p ha
      simp only [ha, if_true] at hK' ⊢
      rw [e]
      simp only [ha, if_true]
      exact ih { p := (stepC h s.p).p, outs := s.outs ++ (stepC h s.p).outs, err := (stepC h s.p).err } K0 K'
        hwf.1 hwf.2 (by simp; omega) (by rw [mu_app] at hK ⊢; simp; omega) hK'
    · -- wait
      rw [e] at hK' ⊢
      simp only [Bool.false_eq_true, if_false, List.append_nil] at hK' ⊢
      have back := runHL_succ h K0 (sapp s x) hes
      rw [hp, hoo] at back
      rw [← back, hsa, he]
      exact runHL_fuel h _ _ _ rfl hwa hK hK'
    · -- unknown
      simp only [ha, Bool.false_eq_true, if_false] at hK' ⊢
      rw [e]
      simp only [ha, Bool.false_eq_true, if_false]
      cases K' with
      | zero => omega
      | succ K1 =>
        by_cases hx : x = []
        · subst hx
          rw [app_nil]
          exact (runHL_nil h K1 _ hwf.1 hbn).symm
        · have hb2 : (app (stepC h s.p).p x).buf ≠ [] := by simp [app, hbn, hx]
          rw [runHL_succ h K1 _ hwf.1, stepC_unknown h _ hb2 hu]
          simp [app, hwf.1, lst_buf_nil _ hbn]
    · -- yield
      simp only [ha, Bool.false_eq_true, if_false] at hK' ⊢
      rw [e]
      by_cases hx : x = []
      · subst hx
        rw [app_nil]
        have hfe : (!([] : Bytes).isEmpty) = false := rfl
        rw [hfe, if_neg (by simp)]
        cases K' with
        | zero => omega
        | succ K1 => exact (runHL_nil h K1 _ hwf.1 hbn).symm
      · have hte : (!x.isEmpty) = true := by
          cases x with
          | nil => exact absurd rfl hx
          | cons _ _ => rfl
        rw [hte, if_pos rfl]
        refine runHL_fuel h K0 K' _ hwf.1 ((app_wf _ _).mpr hwf.2) ?_ hK'
        rw [mu_app] at hK ⊢; omega
    · -- partial result
      simp only [ha, Bool.false_eq_true, if_false] at hK' ⊢
      by_cases hx : x = []
      · subst hx
        simp only [app_nil, ha, Bool.false_eq_true, if_false]
        cases K' with
        | zero => omega
        | succ K1 => exact (runHL_nil h K1 _ hwf.1 hbn).symm
      · rw [e hx]
        cases K' with
        | zero => omega
        | succ K1 =>
          rw [runHL_succ h K1 _ hwf.1]
          simp only [ho, List.append_nil]
          have hw2 : Wf (app (stepC h s.p).p x) := (app_wf _ _).mpr hwf.2
          have hwf2 := stepC_wf h _ hw2
          by_cases ha2 : (stepC h (app (stepC h s.p).p x)).again = true
          · simp only [ha2, if_true]
            have hm2 := stepC_mu h _ ha2
            have hm3 : mu (stepC h (app (stepC h s.p).p x)).p < mu (app s.p x) := by
              rw [← e hx]; rw [← e hx] at ha2; exact stepC_mu h _ ha2
            exact runHL_fuel h K0 K1 _ hwf2.1 hwf2.2 (by simp; omega) (by simp; omega)
          · simp [ha2]


end Sv.Listener
