"""tail_f_producer (supervisor/http.py): size/inode comparisons, offset updates, the truncation marker."""
from extract import Site

LEAN_MODULE = 'TailF'
IMPORTS = []
OPENS = []

# locals are keyed by their defining expression, so that renaming a local does not disturb the extraction
_vars = {
    'self.sz': ('ssz', 'int'), 'head': ('head', 'int'), 'self.ino': ('sino', 'int'),
    'os.stat(self.filename)[stat.ST_INO]': ('ino', 'int'),
}
_vars_init = dict(_vars, **{'self._fsize()': ('sz', 'int')})
_vars_more = dict(_vars, **{'self._fsize()': ('newsz', 'int')})
SITES = [
    # __init__: a3 `sz = self._fsize()`, g0 `sz >= head`, a4 `self.sz = sz - head`
    Site('supervisor/http.py', 'tail_f_producer.__init__', 'tfInit', '(sz head : Int)', _vars_init,
         want={'tfInit_g0', 'tfInit_a4'}),
    # more: a2 bytes_added, g0 `< 0`, a3 `self.sz = 0`, a4 marker, g1 `> 0`, a6 `self.sz = newsz`
    # c0 = self.file.seek(-bytes_added, 2), c1 = self.file.read(bytes_added)
    Site('supervisor/http.py', 'tail_f_producer.more', 'tfMore', '(ssz newsz : Int)', _vars_more,
         want={'tfMore_a1', 'tfMore_a2', 'tfMore_g0', 'tfMore_a3', 'tfMore_a4', 'tfMore_g1', 'tfMore_a6',
               'tfMore_c0_0', 'tfMore_c0_1', 'tfMore_c1_0'},
         str_as_bytes=True, calls=('self.file.seek', 'self.file.read')),
    # _open: a2 `self.sz = 0`
    Site('supervisor/http.py', 'tail_f_producer._open', 'tfOpen', '(u : Unit)', _vars, want={'tfOpen_a2'}),
    # _follow: g0 `self.ino != ino`
    Site('supervisor/http.py', 'tail_f_producer._follow', 'tfFollow', '(sino ino : Int)', _vars, want={'tfFollow_g0'}),
]
