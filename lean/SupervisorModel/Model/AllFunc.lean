import SupervisorModel.Generated.AllFunc
/-
  make_allfunc (supervisor/rpcinterface.py): the closure behind startProcessGroup / stopProcessGroup /
  signalProcessGroup and startAllProcesses / stopAllProcesses / signalAllProcesses.

      callbacks = []; results = []
      def allfunc():
          if not callbacks:                                   -- allfunc_g0
              for group, process in processes:                -- the (already ordered) process list
                  name = make_namespec(group.config.name, process.config.name)
                  if predicate(process):                      -- allfunc_g1
                      try:    callback = func(name, **extra_kwargs)
                      except RPCError as e:  results.append({... 'status': e.code, 'description': e.text}); continue
                      if isinstance(callback, types.FunctionType):  callbacks.append((group, process, callback))   -- allfunc_g2
                      else:   results.append({... 'status': Faults.SUCCESS, 'description': 'OK'})
          if not callbacks:  return results                   -- allfunc_g3
          for struct in callbacks[:]:                         -- a COPY of the pending list
              group, process, cb = struct
              try:    value = cb()
              except RPCError as e:  results.append({... e.code, e.text});  callbacks.remove(struct)
              else:
                  if value is not NOT_DONE_YET:               -- allfunc_g4
                      results.append({... SUCCESS, 'OK'});  callbacks.remove(struct)
          if callbacks:  return NOT_DONE_YET                  -- allfunc_g5
          return results

  What the environment does is an input of the model (`Env`): for the process at position `i` of the list, whether the
  predicate holds when it is tested, what `func` does when it is called (raises RPCError, hands back a function, hands
  back anything else) and what the k-th poll of its callback does (NOT_DONE_YET, raises RPCError, anything else).  The
  theorems quantify over all of these, hence over every order and time of completion.

  The identity of a pending tuple `(group, process, callback)` is the position `i` of its process in the list: `func`
  makes a new function object at every call (`def onwait` inside startProcess / stopProcess), so two tuples are never
  equal and `callbacks.remove(struct)` removes that very tuple; the model's `List.erase` (first equal element) is
  the same statement, and the lemmas prove the pending positions distinct.  A callback's own state (how often it
  has been polled) lives in `State.polled`, outside the two lists, exactly as the closure object is shared by
  `callbacks` and its copy.

  The tests of the closure, the three values it returns, the fields of the four entries it appends and the
  statement-level facts (`pollLoopOverCopy`, `pollRemovesStruct`, ...) are the regenerated definitions of
  Generated/AllFunc.lean.  If one of the statement-level facts no longer holds the model does not guess: `invoke`
  answers `unmodelled` (and every theorem, which needs `structureOk = true`, stops checking).
-/
namespace Sv.AllFunc
open Sv.Gen.AllFunc

/-- what `func(name, **extra_kwargs)` does for one process -/
inductive Imm
  | raises (code : Int) (text : String)   -- raises RPCError(code, text)
  | deferred                              -- returns a function (the deferred callback)
  | value                                 -- returns anything else (True)
deriving DecidableEq, Repr

/-- what one call of a deferred callback does -/
inductive Poll
  | notDone                               -- returns NOT_DONE_YET
  | raises (code : Int) (text : String)   -- raises RPCError(code, text)
  | value                                 -- returns anything else (True)
deriving DecidableEq, Repr

/-- the process list handed to make_allfunc and everything the environment does, by position in the list -/
structure Env where
  n : Nat                          -- length of `processes`
  group : Nat → String             -- group.config.name
  name : Nat → String              -- process.config.name
  eligible : Nat → Bool            -- predicate(process), when it is tested
  imm : Nat → Imm                  -- func(name), when it is called
  polls : Nat → Nat → Poll         -- polls i k: the (k+1)-th call of the callback of process i

structure Entry where
  name : String
  group : String
  status : Int
  description : String
deriving DecidableEq, Repr

/-- calls across the seam, in order -/
inductive Ev
  | test (i : Nat)                       -- predicate(process)
  | call (i : Nat) (namespec : String)   -- func(namespec, **extra_kwargs)
  | poll (i : Nat)                       -- the callback of process i is called
deriving DecidableEq, Repr

/-- the two lists of the closure, the callbacks' own state, and the log of seam calls -/
structure State where
  callbacks : List Nat := []           -- pending tuples, by identity (= list position of their process)
  results : List Entry := []
  polled : Nat → Nat := fun _ => 0     -- how often the callback of process i has been called
  log : List Ev := []

def State.init : State := {}

inductive Answer
  | notDoneYet
  | results (rs : List Entry)
  | unmodelled                         -- a statement-level fact of the source changed; the model does not apply
deriving DecidableEq, Repr

/-- options.make_namespec -/
def makeNamespec (g p : String) : String := if g == p then p else g ++ ":" ++ p

/-- where the closure touches its two lists (branch, operation, tests of the enclosing ifs) -- the control flow `walkOne` and
    `pollOne` below are written after -/
def expectedPlacement : List (String × String × List String) := [
  ("walkErr", "results.append", ["+predicate(process)"]),
  ("walkOk", "callbacks.append((group, process, callback))", ["+predicate(process)", "+isinstance(callback, types.FunctionType)"]),
  ("walkOk", "results.append", ["+predicate(process)", "-isinstance(callback, types.FunctionType)"]),
  ("pollErr", "results.append", []),
  ("pollErr", "callbacks.remove(struct)", []),
  ("pollOk", "results.append", ["+value is not NOT_DONE_YET"]),
  ("pollOk", "callbacks.remove(struct)", ["+value is not NOT_DONE_YET"])]

/-- the statement-level facts of the source this model is written against -/
def structureOk : Bool :=
  pollLoopOverCopy && pollLoopTargetIsStruct && pollRemovesStruct && structPackedAsUnpacked && funcCalledOnlyInWalk
  && walkFuncCalls == ["func(name, **extra_kwargs)"]
  && walkNamespec == ["make_namespec(group.config.name, process.config.name)"]
  && appendSites == ["walkErr", "walkOk", "pollErr", "pollOk"]
  && listOpPlacement == expectedPlacement

def entryWalkErr (env : Env) (i : Nat) (c : Int) (t : String) : Entry :=
  { name := walkErr_name c t (env.name i) (env.group i), group := walkErr_group c t (env.name i) (env.group i),
    status := walkErr_status c t (env.name i) (env.group i), description := walkErr_description c t (env.name i) (env.group i) }

def entryWalkOk (env : Env) (i : Nat) : Entry :=
  { name := walkOk_name 0 "" (env.name i) (env.group i), group := walkOk_group 0 "" (env.name i) (env.group i),
    status := walkOk_status 0 "" (env.name i) (env.group i), description := walkOk_description 0 "" (env.name i) (env.group i) }

def entryPollErr (env : Env) (i : Nat) (c : Int) (t : String) : Entry :=
  { name := pollErr_name c t (env.name i) (env.group i), group := pollErr_group c t (env.name i) (env.group i),
    status := pollErr_status c t (env.name i) (env.group i), description := pollErr_description c t (env.name i) (env.group i) }

def entryPollOk (env : Env) (i : Nat) : Entry :=
  { name := pollOk_name 0 "" (env.name i) (env.group i), group := pollOk_group 0 "" (env.name i) (env.group i),
    status := pollOk_status 0 "" (env.name i) (env.group i), description := pollOk_description 0 "" (env.name i) (env.group i) }

/-- `callback` returned by func: a function object goes to `callbacks`, anything else is a SUCCESS entry -/
def keepOrRecord (env : Env) (s : State) (i : Nat) (isFn : Bool) : State :=
  if allfunc_g2 s.callbacks true isFn .plain then { s with callbacks := s.callbacks ++ [i] }
  else { s with results := s.results ++ [entryWalkOk env i] }

/-- one iteration of `for group, process in processes` -/
def walkOne (env : Env) (s : State) (i : Nat) : State :=
  let s0 : State := { s with log := s.log ++ [.test i] }
  if allfunc_g1 s0.callbacks (env.eligible i) false .plain then
    let s1 : State := { s0 with log := s0.log ++ [.call i (makeNamespec (env.group i) (env.name i))] }
    match env.imm i with
    | .raises c t => { s1 with results := s1.results ++ [entryWalkErr env i c t] }
    | .deferred => keepOrRecord env s1 i true
    | .value => keepOrRecord env s1 i false
  else s0

def walk (env : Env) (s : State) : State := (List.range env.n).foldl (walkOne env) s

/-- `value = cb()` came back without an exception -/
def afterValue (env : Env) (s : State) (i : Nat) (v : CbValue) : State :=
  if allfunc_g4 s.callbacks true true v then
    { s with results := s.results ++ [entryPollOk env i], callbacks := s.callbacks.erase i }
  else s

/-- one iteration of `for struct in callbacks[:]`, `struct` being the pending tuple of process i -/
def pollOne (env : Env) (s : State) (i : Nat) : State :=
  let s1 : State := { s with polled := fun j => if j = i then s.polled i + 1 else s.polled j, log := s.log ++ [.poll i] }
  match env.polls i (s.polled i) with
  | .raises c t => { s1 with results := s1.results ++ [entryPollErr env i c t], callbacks := s1.callbacks.erase i }
  | .notDone => afterValue env s1 i .notDoneYet
  | .value => afterValue env s1 i .plain

/-- the poll loop: over the pending list as it is when the loop starts (`callbacks[:]`) -/
def pollAll (env : Env) (s : State) : State := s.callbacks.foldl (pollOne env) s

def answerOf (v : CbValue) (s : State) : Answer :=
  match v with
  | .notDoneYet => .notDoneYet
  | .plain => .results s.results

/-- `if not callbacks:` walk -/
def phase1 (env : Env) (s : State) : State :=
  if allfunc_g0 s.callbacks false false .plain then walk env s else s

/-- from `if not callbacks: return results` to the end -/
def phase2 (env : Env) (s : State) : State × Answer :=
  if allfunc_g3 s.callbacks false false .plain then (s, answerOf (allfunc_a2 s.callbacks false false .plain) s)
  else
    let s2 := pollAll env s
    if allfunc_g5 s2.callbacks false false .plain then (s2, answerOf (allfunc_a5 s2.callbacks false false .plain) s2)
    else (s2, answerOf (allfunc_a6 s2.callbacks false false .plain) s2)

/-- one invocation of the closure -/
def invoke (env : Env) (s : State) : State × Answer :=
  if structureOk then phase2 env (phase1 env s) else (s, .unmodelled)

/-- The deferred-response protocol (DeferredXMLRPCResponse.more, multicall): the closure is invoked again exactly
    while its last answer was NOT_DONE_YET; once it has answered, it is never invoked again.  `none` = not yet invoked. -/
def tick (env : Env) (r : State × Option Answer) : State × Option Answer :=
  match r.2 with
  | none => ((invoke env r.1).1, some (invoke env r.1).2)
  | some .notDoneYet => ((invoke env r.1).1, some (invoke env r.1).2)
  | some _ => r

/-- state and last answer after the caller has had `n` opportunities to invoke the closure -/
def run (env : Env) : Nat → State × Option Answer
  | 0 => (State.init, none)
  | n + 1 => tick env (run env n)

/-! ## process lists as lists -/

structure PSpec where
  group : String
  name : String
  eligible : Bool
  imm : Imm
  polls : Nat → Poll

def PSpec.dflt : PSpec := { group := "", name := "", eligible := false, imm := .value, polls := fun _ => .value }

def Env.ofList (ps : List PSpec) : Env :=
  { n := ps.length
    group := fun i => (ps.getD i PSpec.dflt).group
    name := fun i => (ps.getD i PSpec.dflt).name
    eligible := fun i => (ps.getD i PSpec.dflt).eligible
    imm := fun i => (ps.getD i PSpec.dflt).imm
    polls := fun i => (ps.getD i PSpec.dflt).polls }

end Sv.AllFunc
