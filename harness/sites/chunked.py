"""
deferring_chunked_producer.more (supervisor/http.py) -- the chunk framing and the text->bytes
conversion of fix F8 -- and HTTPHandler.chunked_size (supervisor/http_client.py).

deferring_http_channel.refill_buffer (supervisor/http.py) and async_chat.initiate_send
(supervisor/medusa/asynchat_25.py): the channel's output buffer between the producers and the socket --
what a refill does with the bytes not yet sent, what is offered to send(), what is kept afterwards.
"""
import ast, os
from extract import Site, REPO, find_func

LEAN_MODULE = 'Chunked'
IMPORTS = []
OPENS = []


def TABLES():
    out = []
    # does the chunk branch convert the wrapped producer's data to bytes *before* measuring it?
    tree = ast.parse(open(os.path.join(REPO, 'supervisor/http.py')).read())
    f = find_func(tree, 'deferring_chunked_producer.more')
    converts = False
    for n in ast.walk(f):
        if isinstance(n, ast.If) and ast.unparse(n.test) == 'data':
            seen_len = False
            for st in n.body:
                src = ast.unparse(st)
                if 'len(data)' in src:
                    seen_len = True
                if src.replace(' ', '') == 'data=as_bytes(data)' and not seen_len:
                    converts = True
    out.append('/-- deferring_chunked_producer.more: `data = as_bytes(data)` precedes `len(data)` in the chunk branch (fix F8) -/')
    out.append('def encConvertsText : Bool := %s' % ('true' if converts else 'false'))
    import importlib
    import supervisor.http_client as hc
    importlib.reload(hc)
    out.append('/-- http_client.CRLF, the line terminator of HTTPHandler -/')
    out.append('def clientCRLF : List UInt8 := [%s]' % ', '.join(str(b) for b in hc.CRLF))
    # ---- the channel's output buffer: who defines the methods that touch it ------------------------
    ms = ast.parse(open(os.path.join(REPO, 'supervisor/medusa/http_server.py')).read())
    ac = ast.parse(open(os.path.join(REPO, 'supervisor/medusa/asynchat_25.py')).read())
    watched = ['initiate_send', 'handle_write', 'refill_buffer', 'push_with_producer', 'discard_buffers']
    def defined(tr, cls):
        c = [n for n in tr.body if isinstance(n, ast.ClassDef) and n.name == cls]
        assert len(c) == 1, cls
        names = [n.name for n in c[0].body if isinstance(n, ast.FunctionDef)]
        return [m for m in watched if m in names], c[0]
    d_chan, chan_cls = defined(tree, 'deferring_http_channel')
    d_http, _ = defined(ms, 'http_channel')
    d_chat, _ = defined(ac, 'async_chat')
    out.append('/-- which of initiate_send / handle_write / refill_buffer / push_with_producer / discard_buffers each class of the channel\'s MRO defines -/')
    out.append('def outbuf_methods_deferring_http_channel : List String := [%s]' % ', '.join('"%s"' % m for m in d_chan))
    out.append('def outbuf_methods_http_channel : List String := [%s]' % ', '.join('"%s"' % m for m in d_http))
    out.append('def outbuf_methods_async_chat : List String := [%s]' % ', '.join('"%s"' % m for m in d_chat))
    obs = [n.value.value for n in chan_cls.body if isinstance(n, ast.Assign) and ast.unparse(n.targets[0]) == 'ac_out_buffer_size'
           and isinstance(n.value, ast.Constant)]
    assert len(obs) == 1, 'deferring_http_channel.ac_out_buffer_size'
    out.append('/-- deferring_http_channel.ac_out_buffer_size -/')
    out.append('def chanOutBufferSize : Int := %d' % obs[0])
    # every statement of refill_buffer that assigns ac_out_buffer (there must be nothing but appends)
    rb = find_func(tree, 'deferring_http_channel.refill_buffer')
    assigns = []
    for n in ast.walk(rb):
        if isinstance(n, ast.Assign) and any(ast.unparse(t) == 'self.ac_out_buffer' for t in n.targets):
            assigns.append((n.lineno, ast.unparse(n)))
        elif isinstance(n, ast.AugAssign) and ast.unparse(n.target) == 'self.ac_out_buffer':
            assigns.append((n.lineno, ast.unparse(n)))
    out.append('/-- every assignment to self.ac_out_buffer in deferring_http_channel.refill_buffer -/')
    out.append('def refillAssignsOutBuffer : List String := [%s]' % ', '.join('"%s"' % t.replace('"', "'") for _, t in sorted(assigns)))
    return out


SITES = [
    # g2 `elif data`, a4 the chunk, a7 the last-chunk, a8 after the end
    Site('supervisor/http.py', 'deferring_chunked_producer.more', 'encMore', '(hexs data : List UInt8)',
         {'data': ('data', 'bytes'), 'as_bytes(s)': ('hexs', 'bytes')},
         want={'encMore_g2', 'encMore_a4', 'encMore_a7', 'encMore_a8'}),
    # g0 `not line`, g1 `chunk_size == 0`
    Site('supervisor/http_client.py', 'HTTPHandler.chunked_size', 'decSize', '(buffer : List UInt8) (chunk_size : Int)',
         {'self.buffer': ('buffer', 'bytes'), 'int(line.split()[0], 16)': ('chunk_size', 'int')},
         want={'decSize_g0', 'decSize_g1'}),
    # the channel's refill: a1 `self.ac_out_buffer += p` (a bytes object in the fifo), g6 `elif data`, a4 the refill itself
    Site('supervisor/http.py', 'deferring_http_channel.refill_buffer', 'chRefill', '(buf data : List UInt8)',
         {'self.ac_out_buffer': ('buf', 'bytes'), 'data': ('data', 'bytes'), 'p': ('data', 'bytes')},
         want={'chRefill_a1', 'chRefill_g6', 'chRefill_a4'}),
    # async_chat.initiate_send: g0 `len(buf) < obs` (refill?), g1 `buf and connected`, c0_0 what is offered to send(),
    # g2 `if num_sent`, a2 what is kept
    Site('supervisor/medusa/asynchat_25.py', 'async_chat.initiate_send', 'initSend',
         '(buf : List UInt8) (obs num_sent : Int) (connected : Bool)',
         {'self.ac_out_buffer': ('buf', 'bytes'), 'self.ac_out_buffer_size': ('obs', 'int'), 'num_sent': ('num_sent', 'int'),
          'self.connected': ('connected', 'bool')},
         want={'initSend_g0', 'initSend_g1', 'initSend_c0_0', 'initSend_g2', 'initSend_a2'}, calls=('self.send',)),
]
