#!/venv/bin/python
"""Builds MANIFEST.json from the property modules present under harness/props/ (metadata only)."""
import importlib, json, os, sys
HERE = os.path.dirname(os.path.abspath(__file__))
VERIF = os.path.normpath(os.path.join(HERE, '..'))
sys.path.insert(0, HERE)
props = [json.loads(l) for l in open(os.path.join(VERIF, 'properties.jsonl'))]
pending = {}
try:
    pending = json.load(open(os.path.join(HERE, 'not_applicable.json')))
except OSError:
    pass
ready = set(json.load(open(os.path.join(HERE, 'ready.json'))))   # properties whose check the integrator has validated
checks, na, engines = [], [], {}
for p in props:
    pid = p['id']
    path = os.path.join(HERE, 'props', pid.lower() + '.py')
    if not os.path.exists(path) or pid in pending or pid not in ready:
        na.append({'property_id': pid, 'reason': pending.get(pid, 'check not built yet; the design for it is in DESIGN.md section 6')})
        continue
    m = importlib.import_module('props.' + pid.lower())
    checks.append({
        'property_id': pid,
        'quick_cmd': './check %s --tier quick' % pid,
        'thorough_cmd': './check %s --tier thorough' % pid,
        'evidence_file': 'evidence/%s.json' % pid,
        'replay_cmd_template': './check %s --replay {path}' % pid,
        'engine': 'lean4-model+correspondence',
        'level_claimed': {'category': 'proof', 'text': m.LEVEL_TEXT, 'design_ref': m.DESIGN_REF},
        'level_note': m.LEVEL_NOTE,
        'technique': m.TECHNIQUE,
    })
hooks_commits = []
try:
    hooks_commits = json.load(open(os.path.join(HERE, 'hook_commits.json')))
except OSError:
    pass
man = {
    'version': 1,
    'setup_cmd': './setup.sh',
    'hooks': {
        'guard': 'SUPERVISOR_VERIF',
        'enable': 'no source hooks are needed: the harness substitutes the documented system-call seam (ServerOptions methods, time.time) from outside; SUPERVISOR_VERIF is not read by /repo',
        'baseline_off_cmd': 'cd /repo && /venv/bin/python -m pytest -ra -q -p no:cacheprovider --timeout=900 --continue-on-collection-errors',
        'source_commits': hooks_commits,
        'add_only': True,
    },
    'engines': [{
        'name': 'lean4-model+correspondence', 'path': 'check',
        'serves_properties': [c['property_id'] for c in checks],
        'kind_free_text': 'Lean 4 models + theorems (lean/SupervisorModel), definitions regenerated from /repo by harness/extract.py, differential correspondence harness (harness/props/*.py) against the real classes, failing-input search by property monitors',
    }],
    'checks': checks,
    'not_applicable': na,
    'notes': 'See DESIGN.md. Exit codes: 0 held, 1 violation (VIOLATION line), 2 infrastructure/timeout. VERIF_SEED and VERIF_TIER are honoured.',
}
json.dump(man, open(os.path.join(VERIF, 'MANIFEST.json'), 'w'), indent=1)
print('%d checks, %d not applicable' % (len(checks), len(na)))
