import SupervisorModel.Lemmas.ProcInv
/-
  Where forks come from: only `spawn()` forks, and it refuses while the process still has a child.
-/
set_option linter.unusedSimpArgs false
set_option linter.unusedVariables false
namespace Sv.Proc
open Sv Sv.Gen.Proc

def forks (outs : List Out) : List Out := outs.filter (fun o => match o with | .fork .. => true | _ => false)

@[simp] theorem forks_append (a b : List Out) : forks (a ++ b) = forks a ++ forks b := by simp [forks]

/-- `f` adds no fork to the outputs -/
def NoFork (f : S → S) : Prop := ∀ s, forks (f s).outs = forks s.outs

theorem noFork_comp {f g : S → S} (hf : NoFork f) (hg : NoFork g) : NoFork (fun s => g (f s)) := by
  intro s; rw [hg, hf]

theorem spawn_id_of_pid (cfg : Cfg) (now : Int) (res : SpawnRes) (s : S) (hp : s.p.pid ≠ 0) : spawn cfg now res s = s := by
  obtain ⟨p, os, err⟩ := s
  cases err <;> simp_all [spawn, guard, spawn_g0]

theorem kill_noFork (cfg : Cfg) (now sig : Int) (kr : KillRes) : NoFork (kill cfg now sig kr) := by
  intro ⟨p, os, err⟩
  cases err with
  | some e => simp [kill, guard]
  | none => cases hs : p.state <;> cases kr <;> by_cases hp : p.pid = 0 <;> simp [procdefs, hs, hp, forks, signallableStates]

theorem giveUp_noFork (cfg : Cfg) (now : Int) : NoFork (giveUp cfg now) := by
  intro ⟨p, os, err⟩
  cases err with
  | some e => simp [giveUp, guard]
  | none => cases hs : p.state <;> simp [procdefs, hs, forks]

theorem signal_noFork (cfg : Cfg) (now sig : Int) (kr : KillRes) : NoFork (signal cfg now sig kr) := by
  intro ⟨p, os, err⟩
  cases err with
  | some e => simp [signal, guard]
  | none => cases hs : p.state <;> cases kr <;> by_cases hp : p.pid = 0 <;> simp [procdefs, hs, hp, forks, signallableStates]

theorem setP_noFork (f : Proc → Proc) : NoFork (setP f) := by
  intro ⟨p, os, err⟩; cases err <;> simp [setP, guard]

theorem emit_noFork (o : Out) (ho : ∀ pid, o ≠ .fork pid) : NoFork (emit o) := by
  intro ⟨p, os, err⟩
  cases err with
  | some e => simp [emit, guard]
  | none => cases o <;> simp_all [emit, guard, forks]

theorem stop_noFork (cfg : Cfg) (now : Int) (kr : KillRes) : NoFork (stop cfg now kr) := by
  intro s
  rw [stop, guard]
  split
  · rfl
  · dsimp only
    rw [kill_noFork, setP_noFork]

theorem finishCore_noFork (cfg : Cfg) (e : Env) (busy : Bool) : NoFork (finishCore cfg e busy) := by
  intro ⟨p, os, err⟩
  cases err with
  | some e => simp [finishCore, guard]
  | none =>
    cases hs : p.state <;> cases busy <;> cases hk : p.killing <;> cases ht : e.tooQuickly <;> cases hx : e.exitExpected <;>
      simp [procdefs, hs, hk, ht, hx, forks]

theorem finish_noFork (cfg : Cfg) (now es : Int) (busy : Bool) : NoFork (finish cfg now es busy) := by
  intro s
  rw [finish, guard]
  split
  · rfl
  · dsimp only
    rw [finishCore_noFork, setP_noFork, setP_noFork]

theorem toRunning_noFork (cfg : Cfg) (e : Env) : NoFork (toRunning cfg e) := by
  intro ⟨p, os, err⟩
  cases err with
  | some e => simp [toRunning, guard]
  | none =>
    cases hs : p.state <;> cases h10 : transition_g10 p cfg e <;> cases h11 : transition_g11 p cfg e <;>
      simp [toRunning, changeState, assertIn, emit, setP, guard, forks, hs, h10, h11, transition_a4, transition_a5, transition_c0,
        transition_c1_0, change_state_g0, change_state_g1, change_state_a0, change_state_a2, change_state_a4, change_state_a5, announces_all]

theorem escalate_noFork (cfg : Cfg) (e : Env) (kr : KillRes) : NoFork (escalate cfg e kr) := by
  intro s
  rw [escalate, guard]
  repeat' split
  all_goals first | rfl | exact giveUp_noFork _ _ _ | exact kill_noFork _ _ _ _ _

theorem stopReport_noFork (cfg : Cfg) (now : Int) : NoFork (stopReport cfg now) := by
  intro s
  rw [stopReport, guard]
  split
  · rfl
  · dsimp only
    split
    · rw [setP_noFork, setP_noFork]
    · rfl

theorem answer_noFork (c : Int) : NoFork (answer c) := emit_noFork _ (by intro pid; simp)

theorem rollback_pid' (cfg : Cfg) (now : Int) (p : Proc) : (rollback cfg now p).pid = p.pid := (rollback_fields cfg now p).2.1

/-- **No second child**: while a process still has a child (pid ≠ 0), a main-loop pass forks nothing for it -/
theorem transition_no_fork_with_child (cfg : Cfg) (p : Proc) (now mood : Int) (res : SpawnRes) (kr : KillRes) (hp : p.pid ≠ 0) :
    forks (transition cfg now mood res kr { p := p }).outs = [] := by
  simp only [transition, guard, setP, Option.isSome_none, Bool.false_eq_true, if_false]
  rw [escalate_noFork, toRunning_noFork]
  rcases autoStart_cases cfg _ res { p := rollback cfg now p } with h | ⟨h, _⟩
  · rw [h]; rfl
  · rw [h, spawn_id_of_pid _ _ _ _ (by simpa [rollback_pid'] using hp)]; rfl

/-- general form: a pass over a process that holds a child adds no fork to what was emitted before -/
theorem transition_noFork_of_pid (cfg : Cfg) (now mood : Int) (res : SpawnRes) (kr : KillRes) (s : S) (hp : s.p.pid ≠ 0) :
    forks (transition cfg now mood res kr s).outs = forks s.outs := by
  rw [transition, guard]
  split
  · rfl
  · dsimp only
    rw [escalate_noFork, toRunning_noFork]
    have hp' : (setP (rollback cfg now) s).p.pid ≠ 0 := by
      obtain ⟨p, os, err⟩ := s
      cases err <;> simp_all [setP, guard, rollback_pid']
    rcases autoStart_cases cfg { now := now, mood := mood, st0 := transition_a1 s.p cfg { now := now } } res
        (setP (rollback cfg now) s) with h | ⟨h, _⟩
    · rw [h, setP_noFork]
    · rw [h]
      simp only []
      rw [spawn_id_of_pid _ _ _ _ hp', setP_noFork]

end Sv.Proc
