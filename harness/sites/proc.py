"""
Subprocess state machine (supervisor/process.py) and the tables it depends on
(supervisor/states.py, docs/subprocess.rst): every guard and every timer/counter update.
"""
import ast, os, re
from extract import Site, REPO

LEAN_MODULE = 'Proc'
IMPORTS = ['SupervisorModel.Model.ProcTypes']
OPENS = ['Sv.Proc']

STATE_NAMES = ['STOPPED', 'STARTING', 'RUNNING', 'BACKOFF', 'STOPPING', 'EXITED', 'FATAL', 'UNKNOWN']


def ps(name):
    return 'PS.' + name.lower()


def TABLES():
    import importlib
    import supervisor.states as st
    importlib.reload(st)
    out = []
    members = sorted(((v, k) for k, v in vars(st.ProcessStates).items() if not k.startswith('_')))
    out.append('/-- supervisor.states.ProcessStates: (name, code), sorted by code -/')
    out.append('def processStates : List (String × Int) := [' + ', '.join('("%s", %d)' % (k, v) for v, k in members) + ']')
    code2name = {v: k for v, k in members}
    def setdef(lean, tup):
        names = [code2name.get(c) for c in tup]
        if any(n not in STATE_NAMES for n in names):
            return 'def %s : List PS := []  -- UNTRANSLATABLE: %r' % (lean, names)
        return 'def %s : List PS := [%s]' % (lean, ', '.join(ps(n) for n in names))
    out.append(setdef('stoppedStates', st.STOPPED_STATES))
    out.append(setdef('runningStates', st.RUNNING_STATES))
    out.append(setdef('signallableStates', st.SIGNALLABLE_STATES))
    ss = st.SupervisorStates
    for k in ('FATAL', 'RUNNING', 'RESTARTING', 'SHUTDOWN'):
        out.append('def mood%s : Int := %d' % (k, getattr(ss, k)))
    # Subprocess.event_map: which states announce a PROCESS_STATE event, and its event name
    import supervisor.process as sp, supervisor.events as ev
    importlib.reload(ev); importlib.reload(sp)
    em = []
    for code, cls in sorted(sp.Subprocess.event_map.items()):
        nm = code2name.get(code)
        evname = ev.getEventNameByType(cls)
        if nm in STATE_NAMES:
            em.append('(%s, "%s")' % (ps(nm), evname))
    out.append('/-- Subprocess.event_map: state entered ↦ registered name of the event announced -/')
    out.append('def eventMap : List (PS × String) := [' + ', '.join(em) + ']')
    # the documented graph: docs/subprocess.rst state list
    doc = open(os.path.join(REPO, 'docs', 'subprocess.rst')).read()
    docstates = re.findall(r'^``([A-Z]+)`` \((-?\d+)\)', doc, re.M)
    out.append('/-- docs/subprocess.rst: the documented process states with their codes -/')
    out.append('def documentedStates : List (String × Int) := [' + ', '.join('("%s", %s)' % (n, c) for n, c in sorted(docstates, key=lambda x: int(x[1]))) + ']')
    import supervisor.xmlrpc as xr
    importlib.reload(xr)
    for k, v in sorted(vars(xr.Faults).items(), key=lambda kv: str(kv[1])):
        if not k.startswith('_'):
            out.append('def fault%s : Int := %d' % (k, v))
    import signal
    out.append('def sigKILL : Int := %d' % int(signal.SIGKILL))
    return out


P = 'self.'
_common = {
    'self.state': ('p.state', 'lean:PS'),
    'state': ('e.st0', 'lean:PS'),
    'self.pid': ('p.pid', 'int'),
    'self.killing': ('p.killing', 'bool'),
    'self.backoff': ('p.backoff', 'int'),
    'self.delay': ('p.delay', 'time'),
    'self.laststart': ('p.laststart', 'time'),
    'self.laststop': ('p.laststop', 'time'),
    'self.laststopreport': ('p.laststopreport', 'time'),
    'self.administrative_stop': ('p.adminStop', 'bool'),
    'self.system_stop': ('p.systemStop', 'bool'),
    'self.exitstatus': ('p.exitstatus', 'lean:Option Int'),
    'self.config.startsecs': ('cfg.startsecs', 'time'),
    'self.config.stopwaitsecs': ('cfg.stopwaitsecs', 'time'),
    'self.config.startretries': ('cfg.startretries', 'int'),
    'self.config.autostart': ('cfg.autostart', 'bool'),
    'self.config.autorestart': ('cfg.autorestart', 'truthy:(cfg.autorestart != AutoRestart.never)'),
    'self.config.exitcodes': ('(cfg.exitcodes.map some)', 'list'),
    'self.config.stopasgroup': ('cfg.stopasgroup', 'bool'),
    'self.config.killasgroup': ('cfg.killasgroup', 'bool'),
    'self.config.stopsignal': ('cfg.stopsignal', 'int'),
    'self.config.options.mood': ('e.mood', 'int'),
    'now': ('e.now', 'time'),
    'test_time': ('e.now', 'time'),
    'time.time()': ('e.now', 'time'),
    'new_state': ('e.new', 'lean:PS'),
    'old_state': ('p.state', 'lean:PS'),
    'killasgroup': ('e.asgroup', 'bool'),
    'too_quickly': ('e.tooQuickly', 'bool'),
    'exit_expected': ('e.exitExpected', 'bool'),
    'es': ('e.es', 'int'),
    'pid': ('e.pid', 'int'),
    'sig': ('e.sig', 'int'),
    'signal.SIGKILL': ('sigKILL', 'int'),
}
_consts = {('ProcessStates.' + n): ps(n) for n in STATE_NAMES}
_consts.update({
    'SupervisorStates.RESTARTING': 'moodRESTARTING', 'SupervisorStates.RUNNING': 'moodRUNNING',
    'SupervisorStates.SHUTDOWN': 'moodSHUTDOWN', 'SupervisorStates.FATAL': 'moodFATAL',
    'RestartUnconditionally': 'AutoRestart.always', 'RestartWhenExitUnexpected': 'AutoRestart.unexpected',
})
_finish = dict(_common)
_finish['self.config.exitcodes'] = ('cfg.exitcodes', 'list')

_stop_all = dict(_common)
_stop_all['state'] = ('p.state', 'lean:PS')              # state = proc.get_state()
_stop_all['SIGNALLABLE_STATES'] = ('signallableStates', 'list')
_stop_all['RUNNING_STATES'] = ('runningStates', 'list')
_stop_all['STOPPED_STATES'] = ('stoppedStates', 'list')

PARAMS = '(p : Proc) (cfg : Cfg) (e : Env)'


def S(qual, name, vars=_common):
    return Site('supervisor/process.py', qual, name, PARAMS, vars, _consts, locals_inline=True,
                calls=['self.kill', 'options.kill', 'self.change_state'], list_calls={'self._assertInState': 'PS'}, const_types={'ProcessStates': 'lean:PS'})


SITES = [
    S('Subprocess.change_state', 'change_state'),
    S('Subprocess.spawn', 'spawn'),
    S('Subprocess._spawn_as_parent', 'spawn_as_parent'),
    S('Subprocess._check_and_adjust_for_system_clock_rollback', 'rollback'),
    S('Subprocess.stop', 'stop'),
    S('Subprocess.stop_report', 'stop_report'),
    S('Subprocess.give_up', 'give_up'),
    S('Subprocess.kill', 'kill'),
    S('Subprocess.signal', 'signal'),
    S('Subprocess.finish', 'finish', _finish),
    S('Subprocess.transition', 'transition'),
    # the group-wide stop the daemon issues on every pass of a shutdown/restart: which member states it acts on
    S('ProcessGroupBase.stop_all', 'stop_all', _stop_all),
]
