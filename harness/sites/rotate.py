"""
supervisor/loggers.py FileHandler / RotatingFileHandler: every comparison of doRollover,
removeAndRename and FileHandler.remove as sites; plus (TABLES) what the statement-level
extractor does not reach: the range() bounds of the backup-shifting loop, the index arithmetic
of the "%s.%d" names, the literal open() modes and errno.ENOENT.
"""
import ast, errno, os
import extract
from extract import Site, Tr, find_func, Untranslatable

LEAN_MODULE = 'Rotate'
IMPORTS = []
OPENS = []

_PARAMS = '(maxBytes backupCount tell i : Int) (sfnExists : Bool)'
_vars = {
    'self.maxBytes': ('maxBytes', 'int'), 'self.backupCount': ('backupCount', 'int'),
    'self.stream.tell()': ('tell', 'int'), 'i': ('i', 'int'),
    'os.path.exists(sfn)': ('sfnExists', 'bool'),
}
_EPARAMS = '(dfnExists : Bool) (oserrno : Int)'
_evars = {
    'self._exists(dfn)': ('dfnExists', 'bool'), 'why.args[0]': ('oserrno', 'int'),
}
_econsts = {'errno.ENOENT': 'ENOENT'}

SITES = [
    Site('supervisor/loggers.py', 'RotatingFileHandler.doRollover', 'doRollover', _PARAMS, _vars),
    Site('supervisor/loggers.py', 'RotatingFileHandler.removeAndRename', 'removeAndRename', _EPARAMS, _evars, _econsts),
    Site('supervisor/loggers.py', 'FileHandler.remove', 'fhRemove', _EPARAMS, _evars, _econsts),
    Site('supervisor/loggers.py', 'RotatingFileHandler.emit', 'rfhEmit', _EPARAMS, _evars, _econsts),
    Site('supervisor/loggers.py', 'FileHandler.reopen', 'fhReopen', _EPARAMS, _evars, _econsts),
]


def _name_index(tr, e, what):
    """index expression of a backup file name:  "%s.%d" % (self.baseFilename, X) -> X ;
    self.baseFilename + ".K" -> K ; self.baseFilename -> 0"""
    if ast.unparse(e) == 'self.baseFilename':
        return '(0 : Int)'
    if (isinstance(e, ast.BinOp) and isinstance(e.op, ast.Mod) and isinstance(e.left, ast.Constant)
            and e.left.value == '%s.%d' and isinstance(e.right, ast.Tuple) and len(e.right.elts) == 2
            and ast.unparse(e.right.elts[0]) == 'self.baseFilename'):
        return tr.expr(e.right.elts[1])
    if (isinstance(e, ast.BinOp) and isinstance(e.op, ast.Add) and ast.unparse(e.left) == 'self.baseFilename'
            and isinstance(e.right, ast.Constant) and isinstance(e.right.value, str)
            and e.right.value.startswith('.') and e.right.value[1:].isdigit()):
        return '(%d : Int)' % int(e.right.value[1:])
    raise Untranslatable('%s: file name expression %s' % (what, ast.unparse(e)))


def _mode_truncates(e, what):
    if isinstance(e, ast.Constant) and isinstance(e.value, str):
        m = e.value
        if 'a' in m and 'w' not in m: return 'false'
        if 'w' in m and 'a' not in m: return 'true'
    raise Untranslatable('%s: open mode %s' % (what, ast.unparse(e)))


def TABLES():
    src = open(os.path.join(extract.REPO, 'supervisor/loggers.py')).read()
    tree = ast.parse(src)
    out = ['def ENOENT : Int := %d' % errno.ENOENT, '']
    # ---- doRollover: loop bounds, name indices, mode of the final open --------------------
    func = find_func(tree, 'RotatingFileHandler.doRollover')
    tr = Tr(SITES[0], func)
    loops = [n for n in ast.walk(func) if isinstance(n, ast.For)]
    if len(loops) != 1:
        raise Untranslatable('doRollover: expected exactly one for loop, found %d' % len(loops))
    loop = loops[0]
    it = loop.iter
    if not (isinstance(it, ast.Call) and ast.unparse(it.func) == 'range' and len(it.args) == 3
            and isinstance(loop.target, ast.Name) and loop.target.id == 'i'):
        raise Untranslatable('doRollover: loop is not `for i in range(a, b, c)`: ' + ast.unparse(it))
    for nm, a in zip(('rangeStart', 'rangeStop', 'rangeStep'), it.args):
        out.append('-- doRollover:%d  range(...) %s = %s' % (loop.lineno, nm, ast.unparse(a)))
        out.append('def doRollover_%s %s : Int := %s' % (nm, _PARAMS, tr.expr(a)))
    assigns = {}
    for n in ast.walk(loop):
        if isinstance(n, ast.Assign) and isinstance(n.targets[0], ast.Name):
            assigns[n.targets[0].id] = n
    calls = [n for n in ast.walk(loop) if isinstance(n, ast.Call) and ast.unparse(n.func) == 'self.removeAndRename']
    if len(calls) != 1 or [ast.unparse(a) for a in calls[0].args] != ['sfn', 'dfn'] or not {'sfn', 'dfn'} <= set(assigns):
        raise Untranslatable('doRollover: loop body is not sfn=..; dfn=..; removeAndRename(sfn, dfn)')
    for nm in ('sfn', 'dfn'):
        n = assigns[nm]
        out.append('-- doRollover:%d  %s = %s' % (n.lineno, nm, ast.unparse(n.value)))
        out.append('def doRollover_%sIdx %s : Int := %s' % (nm, _PARAMS, _name_index(tr, n.value, nm)))
    # the rename of the live file after the loop
    post = [n for n in ast.walk(func) if isinstance(n, ast.Call) and ast.unparse(n.func) == 'self.removeAndRename'
            and n is not calls[0]]
    if len(post) != 1 or len(post[0].args) != 2:
        raise Untranslatable('doRollover: expected one removeAndRename call after the loop')
    top = {n.targets[0].id: n for n in ast.walk(func) if isinstance(n, ast.Assign) and isinstance(n.targets[0], ast.Name)
           and n.lineno > loop.end_lineno}
    def resolve(e):
        if isinstance(e, ast.Name) and e.id in top:
            return top[e.id].value
        return e
    out.append('-- doRollover:%d  %s' % (post[0].lineno, ast.unparse(post[0])))
    out.append('def doRollover_liveSrcIdx : Int := %s' % _name_index(tr, resolve(post[0].args[0]), 'live source'))
    out.append('def doRollover_liveDstIdx : Int := %s' % _name_index(tr, resolve(post[0].args[1]), 'live destination'))
    opens = [n for n in ast.walk(func) if isinstance(n, ast.Call) and ast.unparse(n.func) == 'open']
    if len(opens) != 1 or len(opens[0].args) != 2:
        raise Untranslatable('doRollover: expected exactly one open(name, mode)')
    out.append('-- doRollover:%d  %s' % (opens[0].lineno, ast.unparse(opens[0])))
    out.append('def doRollover_openIdx : Int := %s' % _name_index(tr, opens[0].args[0], 'open'))
    out.append('def doRollover_openTruncates : Bool := %s' % _mode_truncates(opens[0].args[1], 'doRollover open'))
    # ---- constructors: the mode the handler re-opens with ---------------------------------
    init = find_func(tree, 'FileHandler.__init__')
    d = dict(zip([a.arg for a in init.args.args][-len(init.args.defaults):], init.args.defaults))
    out.append("-- FileHandler.__init__:%d  mode=%s   (reopen() uses self.mode)" % (init.lineno, ast.unparse(d['mode'])))
    out.append('def fileHandler_modeTruncates : Bool := %s' % _mode_truncates(d['mode'], 'FileHandler mode'))
    rinit = find_func(tree, 'RotatingFileHandler.__init__')
    forced = [n for n in ast.walk(rinit) if isinstance(n, ast.Assign) and ast.unparse(n.targets[0]) == 'mode']
    if len(forced) != 1:
        raise Untranslatable('RotatingFileHandler.__init__: expected one `mode = ...`')
    out.append("-- RotatingFileHandler.__init__:%d  if maxBytes > 0: mode = %s" % (forced[0].lineno, ast.unparse(forced[0].value)))
    out.append('def rotatingHandler_modeTruncates : Bool := %s' % _mode_truncates(forced[0].value, 'RotatingFileHandler mode'))
    # FileHandler.remove / reopen: which name they act on
    rm = find_func(tree, 'FileHandler.remove')
    rcalls = [n for n in ast.walk(rm) if isinstance(n, ast.Call) and ast.unparse(n.func) == 'os.remove']
    if len(rcalls) != 1:
        raise Untranslatable('FileHandler.remove: expected one os.remove')
    out.append('-- FileHandler.remove:%d  %s' % (rcalls[0].lineno, ast.unparse(rcalls[0])))
    out.append('def fhRemove_idx : Int := %s' % _name_index(tr, rcalls[0].args[0], 'remove'))
    ro = find_func(tree, 'FileHandler.reopen')
    ocalls = [n for n in ast.walk(ro) if isinstance(n, ast.Call) and ast.unparse(n.func) == 'open']
    if len(ocalls) != 1 or ast.unparse(ocalls[0].args[1]) != 'self.mode':
        raise Untranslatable('FileHandler.reopen: expected open(self.baseFilename, self.mode)')
    out.append('-- FileHandler.reopen:%d  %s' % (ocalls[0].lineno, ast.unparse(ocalls[0])))
    out.append('def fhReopen_idx : Int := %s' % _name_index(tr, ocalls[0].args[0], 'reopen'))
    # ---- POutputDispatcher.removelogs / reopenlogs: which loggers they walk, which handler methods they call ----
    dsrc = open(os.path.join(extract.REPO, 'supervisor/dispatchers.py')).read()
    dtree = ast.parse(dsrc)
    for fn in ('removelogs', 'reopenlogs'):
        f = find_func(dtree, 'POutputDispatcher.' + fn)
        loops = [n for n in ast.walk(f) if isinstance(n, ast.For)]
        inner = [l for l in loops if isinstance(l.target, ast.Name) and l.target.id == 'handler']
        if len(inner) != 1:
            raise Untranslatable('POutputDispatcher.%s: one `for handler in ...` loop expected' % fn)
        it = ast.unparse(inner[0].iter)
        outer = [l for l in loops if l is not inner[0]]
        if it == 'log.handlers' and len(outer) == 1 and isinstance(outer[0].iter, (ast.Tuple, ast.List)) \
                and isinstance(outer[0].target, ast.Name) and outer[0].target.id == 'log':
            targets = [ast.unparse(e) for e in outer[0].iter.elts]
        elif it.endswith('.handlers') and not outer:
            targets = [it[:-len('.handlers')]]
        else:
            raise Untranslatable('POutputDispatcher.%s: loop shape %s' % (fn, it))
        calls = []
        for st in inner[0].body:
            if not (isinstance(st, ast.Expr) and isinstance(st.value, ast.Call) and isinstance(st.value.func, ast.Attribute)
                    and ast.unparse(st.value.func.value) == 'handler' and not st.value.args):
                raise Untranslatable('POutputDispatcher.%s: handler.<method>() statements expected' % fn)
            calls.append(st.value.func.attr)
        out.append('-- POutputDispatcher.%s:%d  for handler in the handlers of %s: %s' % (
            fn, f.lineno, ', '.join(targets), '; '.join('handler.%s()' % c for c in calls)))
        out.append('def %s_targets : List String := [%s]' % (fn, ', '.join(extract.lean_str(t) for t in targets)))
        out.append('def %s_calls : List String := [%s]' % (fn, ', '.join(extract.lean_str(c) for c in calls)))
    out.extend(_fanout_tables(tree, dtree))
    return out


# ---------------------------------------------------------------------------------------------
# the clear / reopen fan-out: who is reached when a log is cleared or reopened
#
# Every function on the way from an operator's request (clearLog, clearProcessLogs, SIGUSR2) to
# handler.remove()/reopen() is a loop over handlers / dispatchers / processes / groups.  The body of
# each loop (and the statements before it) is dumped as a list of *flattened guarded statements*
# which Model/LogFan.lean interprets: a statement runs for the current element when all its guards
# hold; `break` / `return` leave the loop, `continue` goes to the next element.  So an early exit, a
# dropped call, a new condition or a reordering in /repo changes the table the theorems are about.
# ---------------------------------------------------------------------------------------------
_FAN_HEADER = [
    '/-- one flattened statement of a clear/reopen fan-out: `act` runs for the current loop element when every guard',
    '    `(polarity, kind, name)` holds (`kind = "hasattr"`: hasattr(element, name); `"notnone"`: element is not None;',
    '    anything else is not modelled).  `act`: "elem.<m>" = element.<m>(), "logger.info" (arg = the literal message,',
    '    "?" when computed), "call" (arg = the callee text), "break", "continue", "return", "raise", "?" -/',
    'structure FanStmt where',
    '  guards : List (Bool × String × String)',
    '  act : String',
    '  arg : String',
    'deriving DecidableEq, Repr',
    '',
]


def _fan_guard(test, var):
    """-> [(polarity, kind, name)] for a conjunction of static tests on the loop element"""
    if isinstance(test, ast.BoolOp) and isinstance(test.op, ast.And):
        res = []
        for v in test.values:
            res.extend(_fan_guard(v, var))
        return res
    if isinstance(test, ast.UnaryOp) and isinstance(test.op, ast.Not):
        inner = _fan_guard(test.operand, var)
        if len(inner) == 1:
            return [(not inner[0][0], inner[0][1], inner[0][2])]
        return [(True, 'other', ast.unparse(test))]
    if (isinstance(test, ast.Call) and ast.unparse(test.func) == 'hasattr' and len(test.args) == 2
            and var is not None and ast.unparse(test.args[0]) == var
            and isinstance(test.args[1], ast.Constant) and isinstance(test.args[1].value, str)):
        return [(True, 'hasattr', test.args[1].value)]
    if (isinstance(test, ast.Compare) and len(test.ops) == 1 and var is not None and ast.unparse(test.left) == var
            and isinstance(test.comparators[0], ast.Constant) and test.comparators[0].value is None):
        if isinstance(test.ops[0], ast.IsNot): return [(True, 'notnone', '')]
        if isinstance(test.ops[0], ast.Is): return [(False, 'notnone', '')]
    return [(True, 'other', ast.unparse(test))]


def _fan_flatten(stmts, var, guards=()):
    """flattened guarded statements of a block; `var` = the loop variable (None outside a loop)"""
    res = []
    for st in stmts:
        g = list(guards)
        if isinstance(st, ast.Pass):
            continue
        if isinstance(st, ast.Expr) and isinstance(st.value, ast.Constant) and isinstance(st.value.value, str):
            continue                                    # docstring
        if isinstance(st, ast.If):
            tg = _fan_guard(st.test, var)
            res.extend(_fan_flatten(st.body, var, g + tg))
            if st.orelse:
                if len(tg) == 1:
                    res.extend(_fan_flatten(st.orelse, var, g + [(not tg[0][0], tg[0][1], tg[0][2])]))
                else:
                    res.extend(_fan_flatten(st.orelse, var, g + [(False, 'other', ast.unparse(st.test))]))
            continue
        if isinstance(st, ast.Break): res.append((g, 'break', '')); continue
        if isinstance(st, ast.Continue): res.append((g, 'continue', '')); continue
        if isinstance(st, ast.Return): res.append((g, 'return', '')); continue
        if isinstance(st, ast.Raise): res.append((g, 'raise', '')); continue
        if isinstance(st, ast.Expr) and isinstance(st.value, ast.Call):
            c = st.value
            f = ast.unparse(c.func)
            if var is not None and isinstance(c.func, ast.Attribute) and ast.unparse(c.func.value) == var \
                    and not c.args and not c.keywords:
                res.append((g, 'elem.' + c.func.attr, '')); continue
            if f.endswith('logger.info') and len(c.args) == 1 and not c.keywords:
                a = c.args[0]
                res.append((g, 'logger.info', a.value if isinstance(a, ast.Constant) and isinstance(a.value, str) else '?'))
                continue
            if not c.args and not c.keywords:
                res.append((g, 'call', f)); continue
        res.append((g, '?', ast.unparse(st).split('\n')[0][:80]))
    return res


def _fan_lean(name, comment, stmts):
    def one(s):
        g, act, arg = s
        gs = ', '.join('(%s, %s, %s)' % ('true' if p else 'false', extract.lean_str(k), extract.lean_str(n)) for p, k, n in g)
        return '⟨[%s], %s, %s⟩' % (gs, extract.lean_str(act), extract.lean_str(arg))
    return ['-- ' + comment, 'def %s : List FanStmt := [%s]' % (name, ', '.join(one(s) for s in stmts))]


def _fan_resolve(e, stmts):
    """the expression with single-assignment local names of the preceding statements substituted (a refactor that
    names a sub-expression does not change what is iterated over)"""
    env = {}
    for st in stmts:
        if isinstance(st, ast.Assign) and len(st.targets) == 1 and isinstance(st.targets[0], ast.Name):
            nm = st.targets[0].id
            env[nm] = None if nm in env else st.value
    class Sub(ast.NodeTransformer):
        def visit_Name(self, n):
            v = env.get(n.id)
            return self.visit(v) if v is not None else n
    import copy
    return ast.unparse(Sub().visit(copy.deepcopy(e)))


def _fan_block(out, prefix, what, stmts, itertext, varname, context=()):
    """a block `pre*; for <var> in <itertext>: body; post*` -> <prefix>_pre, <prefix>_body, <prefix>_post
    (the loop variable may have any name; `varname` is only what it is called in the comments)"""
    loops = [i for i, st in enumerate(stmts) if isinstance(st, ast.For)]
    if len(loops) != 1:
        raise Untranslatable('%s: exactly one top-level for loop expected, found %d' % (what, len(loops)))
    loop = stmts[loops[0]]
    it = _fan_resolve(loop.iter, list(context) + list(stmts[:loops[0]]))
    if it != itertext or not isinstance(loop.target, ast.Name):
        raise Untranslatable('%s: loop is not `for %s in %s`: for %s in %s' % (
            what, varname, itertext, ast.unparse(loop.target), ast.unparse(loop.iter)))
    var = loop.target.id
    if loop.orelse:
        raise Untranslatable('%s: for ... else' % what)
    pre = [st for st in stmts[:loops[0]]
           if not (isinstance(st, ast.Assign) and len(st.targets) == 1 and isinstance(st.targets[0], ast.Name))]
    out.extend(_fan_lean(prefix + '_pre', '%s: statements before the loop' % what, _fan_flatten(pre, None)))
    out.extend(_fan_lean(prefix + '_body', '%s:%d  for %s in %s' % (what, loop.lineno, varname, itertext),
                         _fan_flatten(loop.body, var)))
    out.extend(_fan_lean(prefix + '_post', '%s: statements after the loop' % what, _fan_flatten(stmts[loops[0] + 1:], None)))


def _fanout_tables(ltree, dtree):
    out = [''] + list(_FAN_HEADER)
    rd = lambda f: ast.parse(open(os.path.join(extract.REPO, f)).read())
    # ---- rpcinterface.clearLog: remove the file behind the handlers, then reopen every handler --------
    rtree = rd('supervisor/rpcinterface.py')
    f = find_func(rtree, 'SupervisorNamespaceRPCInterface.clearLog')
    loops = [i for i, st in enumerate(f.body) if isinstance(st, ast.For)]
    if len(loops) != 1:
        raise Untranslatable('clearLog: exactly one top-level for loop expected')
    pre = f.body[:loops[0]]
    removes = [n for st in pre for n in ast.walk(st) if isinstance(n, ast.Call) and ast.unparse(n.func).endswith('options.remove')]
    lf = [st for st in pre if isinstance(st, ast.Assign) and ast.unparse(st.targets[0]) == 'logfile']
    if len(removes) != 1 or [ast.unparse(a) for a in removes[0].args] != ['logfile'] or len(lf) != 1 \
            or ast.unparse(lf[0].value) != 'self.supervisord.options.logfile':
        raise Untranslatable('clearLog: expected one options.remove(logfile) with logfile = self.supervisord.options.logfile before the loop')
    out.append('-- clearLog:%d  %s  (the file at the configured path is unlinked behind the handlers; name index 0)' % (
        removes[0].lineno, ast.unparse(removes[0])))
    out.append('def clearLog_removedIdx : Int := (0 : Int)')
    _fan_block(out, 'clearLog', 'SupervisorNamespaceRPCInterface.clearLog', f.body[loops[0]:],
               'self.supervisord.options.logger.handlers', 'handler', context=[st for st in pre if st not in lf])
    # ---- ServerOptions.reopenlogs (SIGUSR2, the activity log) -----------------------------------------
    otree = rd('supervisor/options.py')
    f = find_func(otree, 'ServerOptions.reopenlogs')
    _fan_block(out, 'optReopenlogs', 'ServerOptions.reopenlogs', f.body, 'self.logger.handlers', 'handler')
    # ---- ServerOptions.make_logger: which handlers the activity logger gets, in which order ------------
    f = find_func(otree, 'ServerOptions.make_logger')
    mk = []
    def walk(stmts, guarded):
        for st in stmts:
            if isinstance(st, ast.If):
                walk(st.body, guarded + [ast.unparse(st.test)]); walk(st.orelse, guarded + ['not (%s)' % ast.unparse(st.test)])
            elif isinstance(st, ast.Expr) and isinstance(st.value, ast.Call) and ast.unparse(st.value.func).startswith('loggers.handle_'):
                mk.append((ast.unparse(st.value.func)[len('loggers.'):], guarded))
    walk(f.body, [])
    for nm, g in mk:
        if g not in ([], ['self.nodaemon and (not self.silent)']):
            raise Untranslatable('make_logger: %s under condition %r' % (nm, g))
    out.append('-- ServerOptions.make_logger:%d  handlers attached to the activity logger, in order; true = only `if self.nodaemon and not self.silent`' % f.lineno)
    out.append('def makeLogger_handlers : List (String × Bool) := [%s]' % ', '.join(
        '(%s, %s)' % (extract.lean_str(nm), 'true' if g else 'false') for nm, g in mk))
    # ---- Subprocess / ProcessGroupBase: dispatchers of a process, processes of a group ------------------
    ptree = rd('supervisor/process.py')
    for fn in ('removelogs', 'reopenlogs'):
        f = find_func(ptree, 'Subprocess.' + fn)
        _fan_block(out, 'sp' + fn.capitalize(), 'Subprocess.' + fn, f.body, 'self.dispatchers.values()', 'dispatcher')
        f = find_func(ptree, 'ProcessGroupBase.' + fn)
        _fan_block(out, 'pg' + fn.capitalize(), 'ProcessGroupBase.' + fn, f.body, 'self.processes.values()', 'process')
    # ---- Supervisor.handle_signal, the SIGUSR2 branch ---------------------------------------------------
    stree = rd('supervisor/supervisord.py')
    f = find_func(stree, 'Supervisor.handle_signal')
    branches = [n for n in ast.walk(f) if isinstance(n, ast.If) and ast.unparse(n.test) == 'sig == signal.SIGUSR2']
    if len(branches) != 1:
        raise Untranslatable('handle_signal: one `sig == signal.SIGUSR2` branch expected')
    _fan_block(out, 'sigusr2', 'Supervisor.handle_signal[SIGUSR2]', branches[0].body, 'self.process_groups.values()', 'group')
    # ---- clearProcessLogs: the process it was asked about ------------------------------------------------
    f = find_func(rtree, 'SupervisorNamespaceRPCInterface.clearProcessLogs')
    calls = [ast.unparse(n.func) for n in ast.walk(f) if isinstance(n, ast.Call) and ast.unparse(n.func).startswith('process.')]
    out.append('-- SupervisorNamespaceRPCInterface.clearProcessLogs:%d  calls on the named process' % f.lineno)
    out.append('def clearProcessLogs_calls : List String := [%s]' % ', '.join(extract.lean_str(c[len('process.'):]) for c in calls))
    # ---- PEventListenerDispatcher.removelogs / reopenlogs (an event listener's stdout log) ---------------
    for fn in ('removelogs', 'reopenlogs'):
        f = find_func(dtree, 'PEventListenerDispatcher.' + fn)
        body = f.body
        if len(body) == 1 and isinstance(body[0], ast.If) and ast.unparse(body[0].test) == 'self.childlog is not None' and not body[0].orelse:
            body = body[0].body
        else:
            raise Untranslatable('PEventListenerDispatcher.%s: `if self.childlog is not None:` expected' % fn)
        _fan_block(out, 'el' + fn.capitalize(), 'PEventListenerDispatcher.' + fn, body, 'self.childlog.handlers', 'handler')
    return out
