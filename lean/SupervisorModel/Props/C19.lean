-- stub: replaced by the property author
namespace Sv.Props.C19
end Sv.Props.C19
