import SupervisorModel.Lemmas.Pool
import SupervisorModel.Lemmas.PoolLedger
import SupervisorModel.Lemmas.PoolOuts
import SupervisorModel.Lemmas.PoolReg
/-
  C09 — events reach exactly the subscribed pools, in order, and are not lost.
  Property theorems only.
-/
set_option linter.unusedSimpArgs false
set_option linter.unusedVariables false
namespace Sv.Props.C09
open Sv Sv.Pool Sv.Events Sv.Gen.Events Sv.Gen.Pool

/-- the generated list of registered event types is complete -/
theorem all_complete (c : Cls) : c ∈ Cls.all := by cases c <;> decide

/-- `isinstance` over the generated class table is reflexive: a pool subscribed to an event's own type is offered it -/
theorem isInstance_refl (c : Cls) : isInstance c c = true := by cases c <;> decide

/-- every registered type is an `EVENT` (the root abstract type) -/
theorem every_type_is_event (c : Cls) : isInstance c .EVENT = true := by cases c <;> decide

/-- the table is closed under taking supertypes (checked over the whole generated table) -/
theorem ancestors_closed :
    (Cls.all.all fun a => Cls.all.all fun b => !isInstance a b || b.ancestors.all (fun c => isInstance a c)) = true := by
  decide

/-- `notify` delivers by `isinstance` (regenerated `notifyTest`) -/
theorem delivers_is_isInstance (c t : Cls) : delivers c t = isInstance c t := by
  simp [delivers, notifyTest]

/-- **offered_to_subscribers**: in every state in which the registry is what the pools' `_subscribe` / `_unsubscribe`
    calls should have left (`RegOK`: true of a freshly configured daemon, `fresh_consistent`, and kept by every
    operation -- removals and additions of pools at run time included -- `consistent_forever`), `notify` runs pool
    `i`'s `_acceptEvent` for an event of class `c` exactly when pool `i` is in `process_groups` and one of the types it
    is subscribed to is `c` itself or one of its supertypes -- and for no other pool. -/
theorem offered_to_subscribers (w : W) (hr : RegOK w) (c : Cls) (i : Nat) :
    i ∈ acceptors w.reg c ↔ ∃ p, w.pools[i]? = some p ∧ p.active = true ∧ ∃ t ∈ p.subs, isInstance c t = true := by
  rw [mem_acceptors]
  constructor
  · rintro ⟨t, hm, hd⟩
    obtain ⟨p, hp, ha, ht⟩ := (hr.mem_subscription t i).mp hm
    exact ⟨p, hp, ha, t, ht, by rw [← delivers_is_isInstance]; exact hd⟩
  · rintro ⟨p, hp, ha, t, ht, hi⟩
    exact ⟨t, (hr.mem_subscription t i).mpr ⟨p, hp, ha, ht⟩, by rw [delivers_is_isInstance]; exact hi⟩

example : (0 : Nat) ∈ acceptors (boot [{ name := "a", bufSize := 3, subs := [.TICK] }]).reg .TICK_5 := by decide
example : (0 : Nat) ∉ acceptors (boot [{ name := "a", bufSize := 3, subs := [.TICK_60] }]).reg .TICK_5 := by decide
/-- a configured pool that has not been added (yet) is offered nothing -/
example : (0 : Nat) ∉ acceptors (boot [{ name := "a", bufSize := 3, subs := [.TICK], active := false, used := false }]).reg .TICK_5 := by
  decide

/-! ### the documented type hierarchy

  `offered_to_subscribers` is relative to the class table regenerated from supervisor/events.py: if a class silently
  gains a base class, model and code agree and the theorem still holds -- about the wrong hierarchy.  The statement's
  "its type or one of its abstract supertypes" is what docs/events.rst documents ("*Subtype Of*: ``X``" in every
  "``T`` Event Type" section); that table is regenerated as `Sv.Gen.Events.documented` from the *documentation* and
  the theorems below tie the classes to it. -/

/-- the registered event types are exactly the documented ones: every `EventTypes` member has its section in
    docs/events.rst, every documented type is registered, no type is documented twice -/
theorem registered_types_are_the_documented_ones :
    (∀ c : Cls, c.name ∈ documented.map (·.1)) ∧
    (∀ n ∈ documented.map (·.1), ∃ c : Cls, c.name = n) ∧
    (documented.map (·.1)).Nodup := by
  refine ⟨fun c => by cases c <;> decide, ?_, by decide⟩
  have h : ((documented.map (·.1)).all fun n => (Cls.all.map Cls.name).contains n) = true := by decide
  intro n hn
  have := List.all_eq_true.mp h n hn
  simp only [List.contains_iff_mem, List.mem_map] at this
  obtain ⟨c, _, hc⟩ := this
  exact ⟨c, hc⟩

/-- every documented supertype is itself a documented type (the "*Subtype Of*" lines name sections that exist) -/
theorem documented_parents_are_documented :
    (documented.all fun e => match e.2 with
      | some p => (documented.map (·.1)).contains p
      | none => true) = true := by decide

/-- **ancestors_are_documented**: for every registered type, the types an event of that type is an instance of
    (the registered classes in its `__mro__`, i.e. what `notify`'s `isinstance` test accepts) are, in order, the
    type itself and its documented supertypes -- no more (a class that gains a base class) and no fewer. -/
theorem ancestors_are_documented (c : Cls) : c.ancestors.map Cls.name = docChain c := by cases c <;> decide

/-- the nearest registered proper ancestor of every type is its documented parent -/
theorem parent_is_documented_parent (c : Cls) : (c.ancestors.drop 1).head? = documentedParent c := by
  cases c <;> decide

/-- `isinstance` over the classes is "is a" over the documentation -/
theorem isInstance_iff_documented (c t : Cls) : isInstance c t = docInstance c t := by
  cases c <;> cases t <;> decide

/-- **offered_to_documented_subscribers**: `notify` runs pool `i`'s `_acceptEvent` for an event of type `c` exactly
    when one of the types the pool is subscribed to is `c` or one of the supertypes docs/events.rst gives `c` --
    and for no other pool.  (`docInstance` is computed from the documentation table alone.) -/
theorem offered_to_documented_subscribers (w : W) (hr : RegOK w) (c : Cls) (i : Nat) :
    i ∈ acceptors w.reg c ↔ ∃ p, w.pools[i]? = some p ∧ p.active = true ∧ ∃ t ∈ p.subs, docInstance c t = true := by
  rw [offered_to_subscribers w hr]
  simp only [isInstance_iff_documented]

/-- a pool subscribed to the abstract `PROCESS_LOG` type is offered log events and no communication event;
    a pool subscribed to `PROCESS_COMMUNICATION` the converse -/
example :
    let pools : List PoolSt := [{ name := "log", bufSize := 3, subs := [.PROCESS_LOG] },
                                { name := "com", bufSize := 3, subs := [.PROCESS_COMMUNICATION] }]
    acceptors (boot pools).reg .PROCESS_LOG_STDOUT = [0] ∧ acceptors (boot pools).reg .PROCESS_COMMUNICATION_STDOUT = [1] ∧
    docInstance .PROCESS_COMMUNICATION_STDOUT .PROCESS_LOG = false := by decide

/-- **buffer_bounded**: for every history (every list of operations: notifications, listener output in any
    fragmentation, pool transitions, pipe faults, process state changes, deaths, respawns) every pool whose
    `buffer_size` is at least 1 holds at most `buffer_size` undelivered events, provided it did at the start
    (a new pool's buffer is empty). -/
theorem buffer_bounded (h : Bytes → Listener.HRes) (w0 : W) (ops : List Op) (j : Nat) (p0 p : PoolSt)
    (h0 : w0.pools[j]? = some p0) (hsz : 1 ≤ p0.bufSize) (hb0 : (p0.buffer.length : Int) ≤ p0.bufSize)
    (hp : (exec h w0 ops).pools[j]? = some p) :
    p.bufSize = p0.bufSize ∧ (p.buffer.length : Int) ≤ p.bufSize := by
  obtain ⟨q, hq, g⟩ := (evolves_exec h w0 ops).2 j p hp
  rw [h0] at hq
  cases hq
  exact ⟨g.1, g.2.2 hsz hb0⟩

/-- the number of pool slots (configured pools, whether currently in `process_groups` or not) never changes either -/
theorem pools_fixed (h : Bytes → Listener.HRes) (w0 : W) (ops : List Op) :
    (exec h w0 ops).pools.length = w0.pools.length := (evolves_exec h w0 ops).1

example : ∃ p0 : PoolSt, (1 : Int) ≤ p0.bufSize ∧ (p0.buffer.length : Int) ≤ p0.bufSize :=
  ⟨{ name := "a", bufSize := 1, subs := [.TICK] }, by decide, by decide⟩

/-- without the size hypothesis the bound fails: `buffer_size = 0` still buffers one event
    (`if len(buffer) >= size: if buffer: pop`), so the statement's "at most buffer_size" needs `buffer_size ≥ 1`
    (options.py rejects `buffer_size < 1`, so configured pools satisfy the hypothesis) -/
theorem buffer_size_zero_holds_one :
    ((notify .TICK_5 [] (boot [{ name := "a", bufSize := 0, subs := [.TICK] }])).pools.map (·.buffer)) = [[0]] := by
  decide

/-- **reject_isolated**: an `EventRejectedEvent` coming from the process object `who` leaves every pool that does
    not own that object exactly as it was (buffer, poolserial counter, listeners) — whatever the listeners' *names*
    are: the owner test `owns` looks at object identities only (`handle_rejected`: `any(process is p for p in procs)`),
    so two pools whose listeners have the same names and priorities do not disturb each other. -/
theorem reject_isolated (who : Option Nat) (e : Nat) (w : W) (j : Nat)
    (hj : ∀ p, w.pools[j]? = some p → owns p who = false) :
    (rejected who e w).pools[j]? = w.pools[j]? := rejected_other who e w j hj

/-- two pools whose only listeners have the same name `l0` (and distinct object identities 0 and 1): the hypothesis
    of `reject_isolated` holds for pool 1 when listener 0 rejects -/
example :
    let w : W := { pools := [{ name := "a", bufSize := 3, subs := [.TICK_5], ids := [0], names := ["l0"] },
                             { name := "b", bufSize := 3, subs := [.TICK_60], ids := [1], names := ["l0"] }] }
    ∀ p, w.pools[1]? = some p → owns p (whoOf w 0 0) = false := by
  intro w p hp
  simp [w] at hp; subst hp; decide

/-- **offered_once** (universal): `notify` calls a pool's `_acceptEvent` once per matching subscription, but
    the state it leaves is exactly the one obtained by offering the event to each matching pool **once**
    (first occurrences, in subscription order): the early return of `_acceptEvent` (fix F16) makes every
    repeated offer the identity -- for every world, every event class and every subscription table. -/
theorem offered_once (c : Cls) (payload : Bytes) (w : W) (he : w.err = none) :
    notify c payload w =
      offer w.events.length (keepFirst (acceptors w.reg c))
        { w with events := w.events ++ [{ cls := c, payload := payload }] } ∧
    (keepFirst (acceptors w.reg c)).Nodup ∧
    (∀ i, i ∈ keepFirst (acceptors w.reg c) ↔ i ∈ acceptors w.reg c) := by
  refine ⟨?_, nodup_keepFirstN _ _ (Nat.le_refl _), fun i => mem_keepFirstN i _ _ (Nat.le_refl _)⟩
  rw [notify_eq_offer c payload w he]
  exact offer_keepFirstN _ _ _ _ (Nat.le_refl _)

/-- offering an event a second time to the same pool changes nothing, whatever happened in between to other pools -/
theorem second_offer_is_identity (i e : Nat) (head : Bool) (w : W) :
    acceptEvent i e false (acceptEvent i e head w) = acceptEvent i e head w :=
  acceptEvent_skip_id i e _ (skip_after i e head w)

/-- **overflow_drops_oldest_only** (universal): whenever `_acceptEvent` puts event `e` into pool `i`'s buffer (new event
    at the tail, re-buffered event at the head), the only event that can leave the buffer is its oldest (first)
    element, exactly when the buffer already holds `buffer_size` events, and then with exactly one error-log entry
    naming it; otherwise nothing is logged and nothing leaves. -/
theorem overflow_drops_oldest_only (i e : Nat) (head : Bool) (w : W) (p : PoolSt) (hp : w.pools[i]? = some p) :
    ∃ p', (insertEv i e head w).pools[i]? = some p' ∧
      (overflowed p = true ↔ p.bufSize ≤ (p.buffer.length : Int) ∧ p.buffer ≠ []) ∧
      p'.buffer = (if head then e :: (if overflowed p then p.buffer.drop 1 else p.buffer)
                   else (if overflowed p then p.buffer.drop 1 else p.buffer) ++ [e]) ∧
      (insertEv i e head w).outs = w.outs ++
        (if overflowed p then
          match p.buffer with
          | d :: _ => [.discard i d (((w.events[d]?).bind (·.serial)).getD (-1))]
          | [] => []
         else []) := by
  obtain ⟨h1, h2, _⟩ := insertEv_spec i e head w p hp
  exact ⟨_, h1, overflowed_iff p, (insBuf_fields e head p).2.2.2.2.2, h2⟩

/-- **reject_returns_to_head** (universal): an `EventRejectedEvent` from a listener of pool `pi` for an event that
    pool had accepted puts the event at the head of pool `pi`'s buffer (dropping, with a log entry, the oldest
    buffered event if the buffer is full).  The pool is in `process_groups` and the registry is in order (`RegOK`, an
    invariant of every history: `consistent_forever`): a pool whose `handle_rejected` is no longer subscribed -- which is
    what a faulty `unsubscribe` of *another* pool would cause -- does not get the event back (`rejected_unsubscribed`). -/
theorem reject_returns_to_head (who : Option Nat) (pi e : Nat) (w : W) (h : Acc w pi e)
    (hr : RegOK w) (hact : ∀ p, w.pools[pi]? = some p → p.active = true)
    (hown : ∀ p, w.pools[pi]? = some p → owns p who = true)
    (hothers : ∀ i, i ≠ pi → ∀ q, w.pools[i]? = some q → owns q who = false) :
    ∃ p p', w.pools[pi]? = some p ∧ (rejected who e w).pools[pi]? = some p' ∧
      p'.buffer = e :: (if overflowed p then p.buffer.drop 1 else p.buffer) := by
  obtain ⟨p, ev, hp, hev, hl, hs⟩ := h
  rw [rejected_eq who pi e w p hp hr.rejecters_nodup ((hr.mem_rejecters pi).mpr ⟨p, hp, hact p hp⟩) (hown p hp) hothers,
    rebuffer_eq_insertEv pi e w ⟨p, ev, hp, hev, hl, hs⟩]
  obtain ⟨h1, _⟩ := insertEv_spec pi e true w p hp
  exact ⟨p, _, hp, h1, by rw [(insBuf_fields e true p).2.2.2.2.2]; simp⟩

/-- **fifo_dispatch** (universal): one `dispatch()` of a pool that respects its bound hands events to listeners in
    buffer order -- oldest first -- and stops at the first event no listener can take: the events handed over are
    exactly a prefix `buffer.take k` of the buffer, in that order; the remaining `buffer.drop k` stays buffered in the
    same order (the event that could not be delivered is back at the head); nothing is discarded or logged.
    Together with `overflow_drops_oldest_only` (new events join at the tail, the oldest leaves on overflow) and
    `reject_returns_to_head` this is the ordering part of the statement. -/
theorem fifo_dispatch (pi fuel : Nat) (w : W) (p : PoolSt) (he : w.err = none) (hp : w.pools[pi]? = some p)
    (hs : 1 ≤ p.bufSize) (hb : (p.buffer.length : Int) ≤ p.bufSize)
    (hv : ∀ e ∈ p.buffer, (w.events[e]?).isSome = true) :
    ∃ (k : Nat) (p' : PoolSt) (l : List POut), (dispatch pi fuel w).pools[pi]? = some p' ∧
      p'.buffer = p.buffer.drop k ∧
      (dispatch pi fuel w).outs = w.outs ++ l ∧ sentBy pi l = p.buffer.take k ∧
      (∀ o ∈ l, ∀ q d s, o ≠ POut.discard q d s) := by
  obtain ⟨k, p', l, h1, h2, _, h4, h5, h6⟩ := dispatch_fifo pi fuel w p he hp hs hb hv
  exact ⟨k, p', l, h1, h2, h4, h5, h6⟩

/-- the hypotheses are satisfiable: a pool within its bound whose buffered ids are known events -/
example :
    let w : W := { pools := [{ name := "a", bufSize := 3, subs := [.TICK], buffer := [0, 1] }],
                   events := [{ cls := .TICK_5, payload := [] }, { cls := .TICK_5, payload := [] }] }
    w.err = none ∧ (∃ p, w.pools[0]? = some p ∧ 1 ≤ p.bufSize ∧ (p.buffer.length : Int) ≤ p.bufSize ∧
      ∀ e ∈ p.buffer, (w.events[e]?).isSome = true) := by
  refine ⟨rfl, _, rfl, by decide, by decide, ?_⟩
  intro e he; simp at he; rcases he with rfl | rfl <;> rfl

/-! ### serials -/

/-- `new_serial` away from the wrap at `maxint`: the counter goes up by exactly one.  This is a fact about one call;
    the statements over whole histories are `serial_is_draw_index`, `serial_unique`, `serial_increasing`,
    `poolserial_is_draw_index`, `poolserial_increasing`, `poolserial_unique` below, which account for the wrap
    (`newSerial_wraps`) exactly -- the hypothesis here is not an omission but the reset `new_serial` performs. -/
theorem newSerial_increasing_partial (serial : Int) (h : serial ≠ maxint) : newSerial serial = serial + 1 := by
  simp [newSerial, newSerial_g0, newSerial_a0, newSerial_a1, newSerial_a2, h]

example : (5 : Int) ≠ maxint := by decide

/-- at `maxint` the counter restarts at 0: serials are unique only within `maxint + 1` events -/
theorem newSerial_wraps : newSerial maxint = 0 := by decide


/-! ### serials, pool serials and conservation over whole histories

  The three clauses below are invariants of every history `exec h w0 ops` (every list of operations: notifications,
  listener output in any fragmentation, pool transitions, pipe faults, process state changes, deaths, respawns)
  that starts in a *consistent* state.  `Consistent` is the inductive invariant itself (Lemmas/PoolLedger.lean:
  `J` = serial bookkeeping `SInv` + the ledger `Ledger` + distinct pool names and process objects `Static` + the
  per-listener invariant `LOK`); `fresh_consistent` shows that every freshly configured daemon satisfies it and
  `consistent_forever` that no operation ever leaves it. -/

/-- the state invariant the history theorems rest on -/
def Consistent (h : Bytes → Listener.HRes) (w : W) : Prop := J h w 0 (fun _ => 0)

/-- **fresh_consistent**: a freshly configured daemon -- any number of pools with pairwise distinct names (the
    `[eventlistener:x]` section names), any subscriptions, buffer sizes and numbers of listeners; counters at their
    initial value, empty buffers, listeners holding nothing, no event emitted yet -- is consistent. -/
theorem fresh_consistent (h : Bytes → Listener.HRes) (ps : List PoolSt) (hf : FreshPools ps) :
    Consistent h (boot (assignIds 0 ps)) := j_fresh h ps hf 0

/-- **consistent_forever**: whatever happens (any list of operations), a consistent daemon stays consistent. -/
theorem consistent_forever (h : Bytes → Listener.HRes) (w0 : W) (ops : List Op) (hc : Consistent h w0) :
    Consistent h (exec h w0 ops) := j_exec h 0 ops w0 hc

/-- two pools with overlapping subscriptions, one and two listeners -/
def demoPools : List PoolSt :=
  [{ name := "a", bufSize := 3, subs := [.TICK, .TICK_5], procs := [Listener.initial] },
   { name := "b", bufSize := 1, subs := [.EVENT], procs := [Listener.initial, Listener.initial] }]

/-- the hypothesis of `fresh_consistent` is satisfiable -/
theorem demoPools_fresh : FreshPools demoPools := by
  refine ⟨by decide, ?_⟩
  intro p hp
  simp only [demoPools, List.mem_cons, List.not_mem_nil, or_false] at hp
  rcases hp with rfl | rfl <;> refine ⟨rfl, rfl, ?_⟩ <;> intro l hl <;> simp at hl <;> subst hl <;>
    exact ⟨Listener.lok_initial, rfl⟩

/-- ... and so is `Consistent`, the hypothesis of every history theorem below -/
example (h : Bytes → Listener.HRes) : Consistent h (boot (assignIds 0 demoPools)) :=
  fresh_consistent h demoPools demoPools_fresh

/-- how many of the events emitted before event `e` carry a serial -/
def serialsBefore (w : W) (e : Nat) : Nat := cnt (w.events.map (·.serial)) e
/-- how many of the events emitted before event `e` the pool named `nm` has accepted -/
def acceptedBefore (w : W) (nm : String) (e : Nat) : Nat := cnt (w.events.map fun ev => ev.poolSerials.lookup nm) e

/-- **serial_is_draw_index** (every history): the serial of an event is the number of events that got a serial
    before it, counted the way `new_serial` counts -- from 0, and starting again at 0 after `maxint` because
    `new_serial` resets the counter to -1 when it has reached `maxint` (`serAt k = k mod (maxint + 1)`); and
    `GlobalSerial` stands exactly where the last draw left it.  Events nobody is subscribed to never get a serial
    (`_acceptEvent` assigns it) and do not count. -/
theorem serial_is_draw_index (h : Bytes → Listener.HRes) (w0 : W) (ops : List Op) (hc : Consistent h w0)
    (e : Nat) (ev : Ev) (s : Int) (hev : (exec h w0 ops).events[e]? = some ev) (hs : ev.serial = some s) :
    s = serAt (serialsBefore (exec h w0 ops) e) ∧
    (exec h w0 ops).gserial = ctrAfter (serialsBefore (exec h w0 ops) (exec h w0 ops).events.length) := by
  have hg := (consistent_forever h w0 ops hc).sv.g
  exact ⟨hg.1 e s (by simp [sers, hev, hs]), by simpa [sers, serialsBefore] using hg.2⟩

/-- **serial_unique** (every history): two different events of one daemon lifetime never carry the same serial,
    unless at least `maxint + 1` = 2^63 events were emitted from the one to the other (then `new_serial` has
    wrapped, see `newSerial_wraps` and `serAt_period`: the code does reset the counter, so this bound is exact). -/
theorem serial_unique (h : Bytes → Listener.HRes) (w0 : W) (ops : List Op) (hc : Consistent h w0)
    (e1 e2 : Nat) (ev1 ev2 : Ev) (s1 s2 : Int) (hlt : e1 < e2)
    (h1 : (exec h w0 ops).events[e1]? = some ev1) (h2 : (exec h w0 ops).events[e2]? = some ev2)
    (hs1 : ev1.serial = some s1) (hs2 : ev2.serial = some s2) (hwin : ((e2 - e1 : Nat) : Int) ≤ maxint) : s1 ≠ s2 :=
  chain_unique _ _ (consistent_forever h w0 ops hc).sv.g e1 e2 s1 s2 hlt (by simp [sers, h1, hs1]) (by simp [sers, h2, hs2]) hwin

/-- **serial_increasing**: while fewer than 2^63 events have been emitted, serials strictly increase in the order
    of emission. -/
theorem serial_increasing (h : Bytes → Listener.HRes) (w0 : W) (ops : List Op) (hc : Consistent h w0)
    (e1 e2 : Nat) (ev1 ev2 : Ev) (s1 s2 : Int) (hlt : e1 < e2)
    (h1 : (exec h w0 ops).events[e1]? = some ev1) (h2 : (exec h w0 ops).events[e2]? = some ev2)
    (hs1 : ev1.serial = some s1) (hs2 : ev2.serial = some s2) (hnowrap : (e2 : Int) ≤ maxint) : s1 < s2 :=
  chain_increasing _ _ (consistent_forever h w0 ops hc).sv.g e1 e2 s1 s2 hlt (by simp [sers, h1, hs1]) (by simp [sers, h2, hs2]) hnowrap

/-- **serAt_period**: the wrap is real -- the draw `maxint + 1` calls later returns the same serial again, so the
    window in `serial_unique` cannot be widened -/
theorem serAt_period (k : Nat) : serAt (k + (maxint + 1).toNat) = serAt k := by
  unfold serAt maxint; omega

/-- the hypotheses of `serial_unique` are met by a concrete history: two ticks, serials 0 and 1 -/
example :
    let w := exec Listener.defaultHandler (boot (assignIds 0 [{ name := "a", bufSize := 3, subs := [.TICK], procs := [Listener.initial] }]))
      [.notify .TICK_5 [], .notify .TICK_60 []]
    w.events.map (·.serial) = [some 0, some 1] ∧ w.gserial = 1 := by decide

/-- **poolserial_is_draw_index** (every history, every pool): the poolserial an event carries for a pool is the
    number of events that pool accepted among those emitted before it (counted like `new_serial` counts), and the
    pool's counter stands where its last draw left it.  By `acceptance_decided_at_emission` "accepted among those
    emitted before it" is "accepted before it". -/
theorem poolserial_is_draw_index (h : Bytes → Listener.HRes) (w0 : W) (ops : List Op) (hc : Consistent h w0)
    (i : Nat) (p : PoolSt) (hp : (exec h w0 ops).pools[i]? = some p)
    (e : Nat) (ev : Ev) (a : Int) (hev : (exec h w0 ops).events[e]? = some ev) (ha : ev.poolSerials.lookup p.name = some a) :
    a = serAt (acceptedBefore (exec h w0 ops) p.name e) ∧
    p.serial = ctrAfter (acceptedBefore (exec h w0 ops) p.name (exec h w0 ops).events.length) := by
  have hg := (consistent_forever h w0 ops hc).sv.p i p hp
  exact ⟨hg.1 e a (by simp [pss, hev, ha]), by simpa [pss, acceptedBefore] using hg.2⟩

/-- **poolserial_increasing** (every history, every pool): of two events a pool accepted, the one accepted later
    carries the strictly larger poolserial -- as long as the pool's counter has not wrapped, i.e. fewer than 2^63
    events so far (the reset in `new_serial` applies to pool counters as well). -/
theorem poolserial_increasing (h : Bytes → Listener.HRes) (w0 : W) (ops : List Op) (hc : Consistent h w0)
    (i : Nat) (p : PoolSt) (hp : (exec h w0 ops).pools[i]? = some p)
    (e1 e2 : Nat) (ev1 ev2 : Ev) (a1 a2 : Int) (hlt : e1 < e2)
    (h1 : (exec h w0 ops).events[e1]? = some ev1) (h2 : (exec h w0 ops).events[e2]? = some ev2)
    (ha1 : ev1.poolSerials.lookup p.name = some a1) (ha2 : ev2.poolSerials.lookup p.name = some a2)
    (hnowrap : (e2 : Int) ≤ maxint) : a1 < a2 :=
  chain_increasing _ _ ((consistent_forever h w0 ops hc).sv.p i p hp) e1 e2 a1 a2 hlt
    (by simp [pss, h1, ha1]) (by simp [pss, h2, ha2]) hnowrap

/-- **poolserial_unique**: in any case two events fewer than 2^63 emissions apart get different poolserials -/
theorem poolserial_unique (h : Bytes → Listener.HRes) (w0 : W) (ops : List Op) (hc : Consistent h w0)
    (i : Nat) (p : PoolSt) (hp : (exec h w0 ops).pools[i]? = some p)
    (e1 e2 : Nat) (ev1 ev2 : Ev) (a1 a2 : Int) (hlt : e1 < e2)
    (h1 : (exec h w0 ops).events[e1]? = some ev1) (h2 : (exec h w0 ops).events[e2]? = some ev2)
    (ha1 : ev1.poolSerials.lookup p.name = some a1) (ha2 : ev2.poolSerials.lookup p.name = some a2)
    (hwin : ((e2 - e1 : Nat) : Int) ≤ maxint) : a1 ≠ a2 :=
  chain_unique _ _ ((consistent_forever h w0 ops hc).sv.p i p hp) e1 e2 a1 a2 hlt
    (by simp [pss, h1, ha1]) (by simp [pss, h2, ha2]) hwin

/-- three events, the second of a type pool "a" is not subscribed to: it gets a serial from pool "b" only, and
    pool "a"'s poolserials count pool "a"'s acceptances (0, 1), not the serials (0, 2) -/
example :
    let w := exec Listener.defaultHandler (boot (assignIds 0 [{ name := "a", bufSize := 3, subs := [.TICK_5], procs := [Listener.initial] },
                                                                  { name := "b", bufSize := 3, subs := [.TICK], procs := [Listener.initial] }]))
      [.notify .TICK_5 [], .notify .TICK_60 [], .notify .TICK_5 []]
    w.events.map (fun ev => (ev.serial, ev.poolSerials.lookup "a")) = [(some 0, some 0), (some 1, none), (some 2, some 1)] := by
  decide

/-- **acceptance_decided_at_emission** (every history and every continuation of it): whether a pool has accepted an
    event is settled by the end of the operation that emitted the event and never changes afterwards --
    `_acceptEvent` accepts an event only inside the `notify` that emits it; every later call (a listener giving the
    event back, `dispatch()` re-buffering it) finds the pool's name in `pool_serials` and assigns nothing.  So a pool
    accepts events in the order in which they are emitted, and "poolserials increase with the event order"
    (`poolserial_increasing`) is "poolserials increase in the order the pool accepted the events". -/
theorem acceptance_decided_at_emission (h : Bytes → Listener.HRes) (w0 : W) (ops more : List Op) (hc : Consistent h w0)
    (i e : Nat) (he : e < (exec h w0 ops).events.length) :
    accepted (exec h w0 (ops ++ more)) i e = accepted (exec h w0 ops) i e := by
  rw [exec_append]
  exact (keeps_exec h _ 0 more _ (Nat.le_refl _) (consistent_forever h w0 ops hc)).2 i e he

/-- an event that exists: after one notification the event table has one entry -/
example :
    (exec Listener.defaultHandler (boot (assignIds 0 [{ name := "a", bufSize := 1, subs := [.TICK], procs := [Listener.initial] }]))
      [.notify .TICK_5 []]).events.length = 1 := by decide

/-- **conservation** (every history, every pool, every event, at every moment): an event a pool has accepted is in
    exactly one place -- once in the pool's buffer, or held by exactly one of the pool's listeners (sent, not yet
    answered), or answered OK by one of them (once; it is gone), or discarded by the overflow rule with its
    error-log entry (once; it is gone): the four counts add up to 1.  For an event the pool has not accepted all
    four are 0.  So an event is never in two places, never dropped silently (leaving the buffer or a listener
    without an OK answer or a discard entry would make the sum 0), never duplicated, and only an OK answer or the
    overflow rule takes it out of the pool; a FAIL answer, a protocol violation or the death of the listener moves
    it from `heldBy` back to `inBuffer` (`reject_returns_to_head`: at the head) of this pool only. -/
theorem conservation (h : Bytes → Listener.HRes) (w0 : W) (ops : List Op) (hc : Consistent h w0) (pi e : Nat) :
    inBuffer (exec h w0 ops) pi e + heldBy (exec h w0 ops) pi e +
      okCount h pi e (exec h w0 ops).outs + discardCount pi e (exec h w0 ops).outs =
    (if accepted (exec h w0 ops) pi e = true then 1 else 0) := by
  have := (consistent_forever h w0 ops hc).led pi e
  cases ha : accepted (exec h w0 ops) pi e <;> simp [ha] at this ⊢ <;> omega

/-- **accepted_has_serials**: what `accepted` means -- the event exists and carries a serial and this pool's
    poolserial (so the envelope `_dispatchEvent` builds never falls back on a default) -/
theorem accepted_has_serials (h : Bytes → Listener.HRes) (w0 : W) (ops : List Op) (hc : Consistent h w0) (pi e : Nat)
    (ha : accepted (exec h w0 ops) pi e = true) :
    ∃ p ev, (exec h w0 ops).pools[pi]? = some p ∧ (exec h w0 ops).events[e]? = some ev ∧
      (ev.poolSerials.lookup p.name).isSome = true ∧ ev.serial.isSome = true :=
  acc_of_accepted (consistent_forever h w0 ops hc).sv pi e ha

/-- a concrete history through all four places: two ticks into a pool of buffer size 1 (the first is discarded,
    the second buffered), the listener becomes READY, is handed the second, answers OK -/
example :
    let w0 : W := (boot (assignIds 0 [{ name := "a", bufSize := 1, subs := [.TICK], procs := [Listener.initial] }]))
    let ops1 : List Op := [.spawn 0 0 7 [], .pstate 0 0 .running, .notify .TICK_5 [], .notify .TICK_60 []]
    let ops2 := ops1 ++ [.read 0 0 [82, 69, 65, 68, 89, 10], .transition 0]
    let ops3 := ops2 ++ [.read 0 0 [82, 69, 83, 85, 76, 84, 32, 50, 10, 79, 75]]
    let w1 := exec Listener.defaultHandler w0 ops1
    let w2 := exec Listener.defaultHandler w0 ops2
    let w3 := exec Listener.defaultHandler w0 ops3
    (accepted w1 0 1 = true ∧ discardCount 0 1 w1.outs = 1 ∧ inBuffer w1 0 2 = 1) ∧
    (heldBy w2 0 2 = 1 ∧ inBuffer w2 0 2 = 0) ∧
    (okCount Listener.defaultHandler 0 2 w3.outs = 1 ∧ heldBy w3 0 2 = 0 ∧ inBuffer w3 0 2 = 0) := by
  decide +kernel

/-- **gone_stays_gone** (every history and every continuation of it): once an event has been answered OK by a
    listener of the pool, or discarded by the pool's overflow rule, it is never in that pool's buffer or with one of
    its listeners again, and it is never answered OK or discarded a second time -- an event is not re-created after
    it is gone.  (The trace is append-only, `outs_exec`; the rest is `conservation`.) -/
theorem gone_stays_gone (h : Bytes → Listener.HRes) (w0 : W) (ops more : List Op) (hc : Consistent h w0) (pi e : Nat)
    (hgone : okCount h pi e (exec h w0 ops).outs + discardCount pi e (exec h w0 ops).outs = 1) :
    inBuffer (exec h w0 (ops ++ more)) pi e = 0 ∧ heldBy (exec h w0 (ops ++ more)) pi e = 0 ∧
    okCount h pi e (exec h w0 (ops ++ more)).outs + discardCount pi e (exec h w0 (ops ++ more)).outs = 1 := by
  have hc2 := conservation h w0 (ops ++ more) hc pi e
  have hx : OutsExt (exec h w0 ops) (exec h w0 (ops ++ more)) := by rw [exec_append]; exact outs_exec h _ more
  have m1 := okCount_mono h pi e hx
  have m2 := discardCount_mono pi e hx
  split at hc2 <;> omega

/-- the hypothesis is met: in the history of the `conservation` example event 1 is discarded after four operations -/
example :
    let w := exec Listener.defaultHandler (boot (assignIds 0 [{ name := "a", bufSize := 1, subs := [.TICK], procs := [Listener.initial] }]))
      [.spawn 0 0 7 [], .pstate 0 0 .running, .notify .TICK_5 [], .notify .TICK_60 []]
    okCount Listener.defaultHandler 0 1 w.outs + discardCount 0 1 w.outs = 1 := by decide +kernel

/-- **draw_order_irrelevant**: `_acceptEvent` draws the poolserial before it applies the overflow rule and inserts the
    event (generated facts `serialDrawBeforeInsert`, `poolSerialDrawBeforeInsert`, read off the statement order of the
    source); the model does the same.  Drawing it after the insertion instead would leave exactly the same state
    and log entries (`stamp_insertEv_comm`), so none of the theorems above depends on where in `_acceptEvent` the
    draw stands -- only on the early `return` for an already accepted event standing before the insertion, which is
    the generated guard `accept_g2`/`accept_g3` the model branches on. -/
theorem draw_order_irrelevant (i e : Nat) (head : Bool) (p : PoolSt) (w : W) :
    (if poolSerialDrawBeforeInsert = true then insertEv i e head (stamp i e p w) else stamp i e p (insertEv i e head w)) =
      insertEv i e head (stamp i e p w) := by
  split
  · rfl
  · exact stamp_insertEv_comm i e head p w

/-! ### the subscription registry; pools removed and added while the daemon runs

  `events.callbacks` is a list of (type, callback) pairs.  `subscribe` / `unsubscribe` below are the interpreters
  (Model/Events.lean) of the shapes regenerated from supervisor/events.py (`subscribeShape`, `unsubscribeShape`, and for
  a filtering `unsubscribe` its keep-condition `unsubKeep`); `removeOp` / `addOp` execute the statement lists regenerated
  from `Supervisor.remove_process_group` / `add_process_group` with `before_remove()` = `_unsubscribe()` and
  `make_group()` = `EventListenerPool(config)` (which subscribes). -/

/-- **unsubscribe_removes_exactly_that_pair**: for every registry (any types, any callbacks, duplicates allowed),
    `unsubscribe(t, c)` leaves every *other* (type, callback) pair exactly as often in the registry as before and in the
    same order -- in particular every other pool's subscriptions, to the same type or to other types, and every other
    pool's `EventRejectedEvent` subscription -- and takes out (at least) one copy of `(t, c)` itself; a pair that was
    subscribed once is gone. -/
theorem unsubscribe_removes_exactly_that_pair {τ κ : Type} [DecidableEq τ] [DecidableEq κ] (t : τ) (c : κ) (r : List (τ × κ)) :
    (∀ x, x ≠ (t, c) → (unsubscribe t c r).count x = r.count x) ∧
    (∀ x, x ≠ (t, c) → (x ∈ unsubscribe t c r ↔ x ∈ r)) ∧
    (unsubscribe t c r).Sublist r ∧
    (unsubscribe t c r).count (t, c) ≤ r.count (t, c) - 1 ∧
    (r.count (t, c) ≤ 1 → (t, c) ∉ unsubscribe t c r) :=
  ⟨fun x hx => count_unsubscribe_other t c x r hx, fun x hx => mem_unsubscribe_other t c x r hx,
   unsubscribe_sublist t c r, count_unsubscribe_self_le t c r, not_mem_unsubscribe_self t c r⟩

/-- **subscribe_adds_exactly_that_pair** -/
theorem subscribe_adds_exactly_that_pair {τ κ : Type} [DecidableEq τ] [DecidableEq κ] (t : τ) (c : κ) (r : List (τ × κ)) (x : τ × κ) :
    (subscribe t c r).count x = r.count x + (if x = (t, c) then 1 else 0) := count_subscribe t c x r

/-- two pools subscribed to the same type, both with their `EventRejectedEvent` subscription: unsubscribing pool 0's pair
    leaves pool 1's three entries -/
example :
    unsubscribe (RTy.cls .TICK) (Cb.accept 0)
      [(RTy.cls .TICK, Cb.accept 0), (RTy.rejected, Cb.handleRejected 0), (RTy.cls .TICK, Cb.accept 1), (RTy.rejected, Cb.handleRejected 1)] =
      [(RTy.rejected, Cb.handleRejected 0), (RTy.cls .TICK, Cb.accept 1), (RTy.rejected, Cb.handleRejected 1)] := by decide

/-- what a group call did not touch in the registry: the entries of every pool other than `pi` -/
def OtherEntry (pi : Nat) : Entry → Prop
  | (_, .accept j) => j ≠ pi
  | (_, .handleRejected j) => j ≠ pi

theorem otherEntry_not_mem (pi : Nat) (p : PoolSt) (x : Entry) (hx : OtherEntry pi x) :
    (regEntries pi p poolSubscribe).count x = 0 := by
  rw [regEntries_subscribe]
  obtain ⟨t, c⟩ := x
  cases t <;> cases c <;> simp only [OtherEntry] at hx <;> simp [hx]

/-- **removal_leaves_other_pools_subscribed**: `remove_process_group(pi)` -- refused or not -- leaves every entry of every
    other pool in the registry, as often as before: the other pools stay subscribed to all their types (shared with the
    removed pool or not) and keep their `EventRejectedEvent` subscription. -/
theorem removal_leaves_other_pools_subscribed (pi : Nat) (w : W) (x : Entry) (hx : OtherEntry pi x) :
    (removeOp pi w).reg.count x = w.reg.count x := by
  unfold removeOp
  split
  · rfl
  · cases hp : w.pools[pi]? with
    | none => simp [removeRun, hp]
    | some p =>
      rw [removeRun_eq pi w p hp]
      split
      · rfl
      · simp only []
        rw [reg_of_rview (rview_notify _ _ _)]
        show (unsubscribePool pi p w.reg).count x = _
        unfold unsubscribePool
        rw [regEntries_unsubscribe]
        exact count_foldl_unsubscribe_other x _ _ (List.count_eq_zero.mp (otherEntry_not_mem pi p x hx))

/-- ... hence they are offered the same events as before and get their rejected events back as before -/
theorem removal_keeps_other_pools_offered (pi j : Nat) (hj : j ≠ pi) (w : W) (c : Cls) :
    (j ∈ acceptors (removeOp pi w).reg c ↔ j ∈ acceptors w.reg c) ∧
    (j ∈ rejecters (removeOp pi w).reg ↔ j ∈ rejecters w.reg) := by
  constructor
  · rw [mem_acceptors, mem_acceptors]
    have : ∀ t, (RTy.cls t, Cb.accept j) ∈ (removeOp pi w).reg ↔ (RTy.cls t, Cb.accept j) ∈ w.reg := by
      intro t
      rw [← List.count_pos_iff, ← List.count_pos_iff, removal_leaves_other_pools_subscribed pi w _ (by simpa [OtherEntry] using hj)]
    simp only [this]
  · rw [← List.count_pos_iff, ← List.count_pos_iff, count_rejecters, count_rejecters,
      removal_leaves_other_pools_subscribed pi w _ (by simpa [OtherEntry] using hj)]

/-- **refused_removal_changes_nothing**: `remove_process_group` of a pool that still has a live listener answers False
    and changes nothing at all -- not the table, not the registry (the pool stays subscribed), no event is emitted. -/
theorem refused_removal_changes_nothing (pi : Nat) (w : W) (p : PoolSt) (hp : w.pools[pi]? = some p)
    (hu : unstopped p = true) : removeOp pi w = w ∧ (removeRun pi w).2 = some false := by
  rw [removeOp, removeRun_eq pi w p hp]
  simp [hu]

/-- **removed_pool_is_unsubscribed**: after a removal that went through (no live listener), the pool is out of the table,
    none of its callbacks is in the registry any more (it is offered nothing, told of no rejection), PROCESS_GROUP_REMOVED
    was emitted -- to the pools that are still there -- and the call answered True. -/
theorem removed_pool_is_unsubscribed (pi : Nat) (w : W) (p : PoolSt) (hr : RegOK w) (he : w.err = none)
    (hp : w.pools[pi]? = some p) (hu : unstopped p = false) :
    (removeRun pi w).2 = some true ∧
    removeOp pi w = notify .PROCESS_GROUP_REMOVED (groupPayload p.name) (deactivate pi p w) ∧
    (∀ c, pi ∉ acceptors (removeOp pi w).reg c) ∧ pi ∉ rejecters (removeOp pi w).reg ∧
    ((removeOp pi w).pools[pi]?).map (·.active) = some false := by
  have hop : removeOp pi w = notify .PROCESS_GROUP_REMOVED (groupPayload p.name) (deactivate pi p w) := by
    rw [removeOp, removeRun_eq pi w p hp]; simp [hu, he]
  have hrd : RegOK (deactivate pi p w) := regOK_deactivate pi p w hp hr
  have hrn : RegOK (removeOp pi w) := by rw [hop]; exact hrd.congr (rview_notify _ _ _)
  have hact : ((removeOp pi w).pools[pi]?).map (·.active) = some false := by
    rw [hop, active_of_rview (rview_notify _ _ _) pi]
    simp only [deactivate]
    rw [getElem?_setPool]; simp [hp]
  have hna : ¬ ∃ q, (removeOp pi w).pools[pi]? = some q ∧ q.active = true := by
    rintro ⟨q, hq, ha⟩
    rw [hq] at hact; simp [ha] at hact
  refine ⟨by rw [removeRun_eq pi w p hp]; simp [hu], hop, ?_, ?_, hact⟩
  · intro c hm
    obtain ⟨q, hq, ha, _⟩ := (offered_to_subscribers _ hrn c pi).mp hm
    exact hna ⟨q, hq, ha⟩
  · intro hm
    exact hna ((hrn.mem_rejecters pi).mp hm)

/-- **subscriptions_follow_the_table** (every history: notifications, listener traffic, deaths, respawns, pools removed
    -- also refused -- and added at run time): at every moment a pool is offered an event exactly when it is in
    `process_groups` and subscribed to the event's type or one of its documented supertypes, and `EventRejectedEvent`s are
    delivered to exactly the pools in `process_groups`, once each.  So a pool that is still in the table is offered every
    later event of its subscribed types and gets its rejected events back, whatever happened to other pools. -/
theorem subscriptions_follow_the_table (h : Bytes → Listener.HRes) (w0 : W) (ops : List Op) (hc : Consistent h w0) :
    (∀ c i, i ∈ acceptors (exec h w0 ops).reg c ↔
      ∃ p, (exec h w0 ops).pools[i]? = some p ∧ p.active = true ∧ ∃ t ∈ p.subs, docInstance c t = true) ∧
    (∀ i, i ∈ rejecters (exec h w0 ops).reg ↔ ∃ p, (exec h w0 ops).pools[i]? = some p ∧ p.active = true) ∧
    (rejecters (exec h w0 ops).reg).Nodup := by
  have hr := (consistent_forever h w0 ops hc).rg
  exact ⟨fun c i => offered_to_documented_subscribers _ hr c i, hr.mem_rejecters, hr.rejecters_nodup⟩

/-- two pools sharing TICK; pool 0 is removed (no live listener): pool 1 keeps its TICK and `EventRejectedEvent`
    subscriptions, pool 0 has none left; pool 0's slot cannot come back, a new pool is added in slot 2 -/
example :
    let ps : List PoolSt := [{ name := "a", bufSize := 3, subs := [.TICK, .TICK_5], procs := [Listener.initial] },
                              { name := "b", bufSize := 3, subs := [.TICK], procs := [Listener.initial] },
                              { name := "c", bufSize := 3, subs := [.PROCESS_GROUP], procs := [Listener.initial], active := false, used := false }]
    let w := exec Listener.defaultHandler (boot (assignIds 0 ps)) [.remove 0, .add 2, .notify .TICK_5 []]
    acceptors w.reg .TICK_5 = [1] ∧ (rejecters w.reg).length = 2 ∧ 1 ∈ rejecters w.reg ∧ 2 ∈ rejecters w.reg ∧
    w.pools.map (·.buffer) = [[], [2], [1]] ∧
    w.events.map (·.cls) = [.PROCESS_GROUP_REMOVED, .PROCESS_GROUP_ADDED, .TICK_5] := by decide +kernel

/-- a refused removal: the listener of pool 0 is alive -/
example :
    let ps : List PoolSt := [{ name := "a", bufSize := 3, subs := [.TICK], procs := [Listener.initial] }]
    let w := exec Listener.defaultHandler (boot (assignIds 0 ps)) [.spawn 0 0 7 [], .remove 0, .notify .TICK_5 []]
    acceptors w.reg .TICK_5 = [0] ∧ rejecters w.reg = [0] ∧ w.pools.map (·.active) = [true] ∧ w.pools.map (·.buffer) = [[1]] := by
  decide +kernel

/-! ### concrete regression instances (finite evaluations of the model, not the universal claims) -/

def tickPool : PoolSt := { name := "a", bufSize := 3, subs := [.TICK, .TICK_5], procs := [Listener.initial] }

/-- F16 (fixed): a pool subscribed to `TICK` and `TICK_5` is called twice by `notify` but buffers the event once -/
theorem offered_once_instance :
    (acceptors (boot [tickPool]).reg .TICK_5) = [0, 0] ∧
    ((notify .TICK_5 [] (boot [tickPool])).pools.map (·.buffer)) = [[0]] := by decide

/-- F1 (fixed): a rejection by a listener of pool 0 re-buffers the event in pool 0 only, although pool 1 has a
    listener of the same name -/
theorem reject_isolated_instance :
    let w0 : W := boot [{ tickPool with subs := [.TICK_5], ids := [0], names := ["l0"] },
                        { tickPool with name := "b", subs := [.TICK_60], ids := [1], names := ["l0"] }]
    let w1 := notify .TICK_5 [] w0
    let w2 := setPool w1 0 (fun p => { p with buffer := [] })      -- the event is out with a listener
    ((rejected (whoOf w2 0 0) 0 w2).pools.map (·.buffer)) = [[0], []] := by decide

/-- overflow: a full buffer (size 1) drops its oldest event, with a log entry, and keeps the new one -/
theorem overflow_drops_oldest_instance :
    let w0 : W := boot [{ tickPool with bufSize := 1 }]
    let w2 := notify .TICK_5 [] (notify .TICK_5 [] w0)
    (w2.pools.map (·.buffer)) = [[1]] ∧ w2.outs.length = 1 := by decide

end Sv.Props.C09
