"""readFile / tailFile (supervisor/options.py): every comparison and offset computation."""
from extract import Site

LEAN_MODULE = 'LogRead'
IMPORTS = []
OPENS = []

_vars = {
    'sz': ('sz', 'int'), 'offset': ('offset', 'int'), 'length': ('length', 'int'),
    'pos': ('pos', 'int'),
}
SITES = [
    Site('supervisor/options.py', 'readFile', 'readFile',
         '(sz offset length pos : Int)', _vars),
    Site('supervisor/options.py', 'tailFile', 'tailFile',
         '(sz offset length pos : Int)', _vars),
]
