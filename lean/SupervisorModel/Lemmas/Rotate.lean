import SupervisorModel.Model.Rotate
/-
  Helper lemmas for C19: what removeAndRename, the backup-shifting loop and a whole rollover do
  to the directory, pointwise in the name index.  Core Lean only.
-/
set_option linter.unusedSimpArgs false
namespace Sv.Rotate
open Sv Sv.Gen.Rotate

@[simp] theorem get_dirRemove (d : Dir) (n m : Int) :
    (dirRemove d n).get m = if m = n then none else d.get m := rfl
@[simp] theorem get_dirSet (d : Dir) (n m : Int) (f : File) :
    (dirSet d n f).get m = if m = n then some f else d.get m := rfl
theorem get_dirRename (d : Dir) (a b m : Int) :
    (dirRename d a b).get m =
      if (d.get a).isSome then (if m = b then d.get a else if m = a then none else d.get m)
      else d.get m := by
  unfold dirRename
  cases h : d.get a <;> simp

@[simp] theorem okThen_ok (f : S → S) (s : S) (h : s.err = none) : okThen f s = f s := by
  simp [okThen, h]
@[simp] theorem okThen_err (f : S → S) (s : S) (e : Err) (h : s.err = some e) : okThen f s = s := by
  simp [okThen, h]

/-- the directory after `removeAndRename(a, b)` -/
def rrSpec (g : Int → Option File) (a b : Int) : Int → Option File := fun m =>
  if (g a).isSome ∧ a ≠ b then (if m = b then g a else if m = a then none else g m)
  else (if m = b then none else g m)

theorem removeAndRename_spec (a b : Int) (s : S) (h : s.err = none) :
    (removeAndRename a b s).err = none ∧ (removeAndRename a b s).stream = s.stream ∧
    (removeAndRename a b s).hist = s.hist ∧
    ∀ m, (removeAndRename a b s).dir.get m = rrSpec s.dir.get a b m := by
  have h1 : (rrRemove b s).err = none ∧ (rrRemove b s).stream = s.stream ∧ (rrRemove b s).hist = s.hist ∧
      ∀ m, (rrRemove b s).dir.get m = if m = b then none else s.dir.get m := by
    unfold rrRemove
    cases hb : s.dir.get b <;>
      simp [removeAndRename_g0, removeAndRename_g1, missingErrno, fexists, hb, h, raise, ENOENT]
  obtain ⟨e1, st1, hi1, g1⟩ := h1
  unfold removeAndRename
  rw [okThen_ok _ _ h, okThen_ok _ _ e1]
  unfold rrRename rrSpec
  by_cases hab : a = b
  · subst hab
    simp [missingErrno, fexists, g1, removeAndRename_g2, ENOENT, e1, st1, hi1, raise]
  · cases ha : s.dir.get a <;>
      simp [missingErrno, fexists, g1, removeAndRename_g2, ENOENT, e1, st1, hi1, raise, hab, ha, get_dirRename]
    intro m
    by_cases hmb : m = b <;> by_cases hma : m = a <;> simp_all

theorem shiftStep_spec (c : Cfg) (i : Int) (s : S) (h : s.err = none) :
    (shiftStep c i s).err = none ∧ (shiftStep c i s).stream = s.stream ∧
    (shiftStep c i s).hist = s.hist ∧
    ∀ m, (shiftStep c i s).dir.get m =
      if (s.dir.get i).isSome then (if m = i + 1 then s.dir.get i else if m = i then none else s.dir.get m)
      else s.dir.get m := by
  unfold shiftStep
  simp only [doRollover_g3, doRollover_sfnIdx, doRollover_dfnIdx, fexists]
  by_cases hi : (s.dir.get i).isSome = true
  · have := removeAndRename_spec i (i + 1) s h
    simp only [hi, if_true]
    refine ⟨this.1, this.2.1, this.2.2.1, ?_⟩
    intro m
    rw [this.2.2.2 m]
    have hne : i ≠ i + 1 := by omega
    simp [rrSpec, hi, hne]
  · simp [hi, h]

/-- the directory after `for i in range(k, 0, -1): if exists(i): removeAndRename(i, i+1)` -/
def shiftSpec (k : Nat) (g : Int → Option File) : Int → Option File := fun n =>
  if 2 ≤ n ∧ n ≤ (k : Int) + 1 then
    (if (g (n - 1)).isSome then g (n - 1) else if n = (k : Int) + 1 then g n else none)
  else if n = 1 ∧ 1 ≤ k then none
  else g n

theorem shiftLoop_spec (c : Cfg) (k : Nat) : ∀ (s : S), s.err = none →
    (shiftLoop c 0 k s).err = none ∧ (shiftLoop c 0 k s).stream = s.stream ∧
    (shiftLoop c 0 k s).hist = s.hist ∧
    ∀ m, (shiftLoop c 0 k s).dir.get m = shiftSpec k s.dir.get m := by
  induction k with
  | zero =>
    intro s h
    refine ⟨h, rfl, rfl, ?_⟩
    intro m
    simp only [shiftLoop, shiftSpec]
    split
    · omega
    · simp
  | succ k ih =>
    intro s h
    obtain ⟨e1, st1, hi1, g1⟩ := shiftStep_spec c (0 + ((k + 1 : Nat) : Int)) s h
    obtain ⟨e2, st2, hi2, g2⟩ := ih _ e1
    simp only [shiftLoop]
    refine ⟨e2, st2.trans st1, hi2.trans hi1, ?_⟩
    intro m
    rw [g2 m]
    simp only [shiftSpec, g1]
    generalize s.dir.get = g
    have e0 : (0 : Int) + ((k + 1 : Nat) : Int) = (k : Int) + 1 := by omega
    rw [e0]
    have e1 : (((k + 1 : Nat) : Int)) = (k : Int) + 1 := by omega
    rw [e1]
    clear ih g1 g2 e2 st2 hi2 e1 st1 hi1 e0
    by_cases hk : (g ((k : Int) + 1)).isSome = true
    · simp only [hk, if_true]
      grind
    · simp only [hk, if_false]
      have hnone : g ((k : Int) + 1) = none := by simpa using hk
      by_cases hm : m = (k : Int) + 1
      · subst hm; grind
      · grind

/-- the directory after a completed rollover that found directory `g` (stream already closed) -/
def rollSpec (N : Int) (hist : Nat) (g : Int → Option File) : Int → Option File := fun n =>
  if n = 0 then some ⟨hist, true, []⟩
  else if 0 < N then
    (if n = 1 then g 0
     else if 2 ≤ n ∧ n ≤ N then
       (if (g (n - 1)).isSome then g (n - 1) else if n = N then g n else none)
     else g n)
  else g n

theorem openFile_trunc_spec (n : Int) (s : S) :
    (openFile n true s).err = s.err ∧ (openFile n true s).stream = .attached n ∧
    (openFile n true s).hist = s.hist ∧
    ∀ m, (openFile n true s).dir.get m = if m = n then some ⟨s.hist, true, []⟩ else s.dir.get m := by
  simp [openFile]

theorem rolloverBody_spec (c : Cfg) (s : S) (h : s.err = none) :
    (rolloverBody c s).err = none ∧ (rolloverBody c s).stream = .attached 0 ∧
    (rolloverBody c s).hist = s.hist ∧
    ∀ n, (rolloverBody c s).dir.get n = rollSpec c.backupCount s.hist s.dir.get n := by
  unfold rolloverBody
  by_cases hN : 0 < c.backupCount
  · obtain ⟨k, hk⟩ : ∃ k : Nat, c.backupCount = (k : Int) + 1 := ⟨(c.backupCount - 1).toNat, by omega⟩
    have hcs : (closeStream s).err = none := h
    obtain ⟨e1, st1, hi1, g1⟩ := shiftLoop_spec c k (closeStream s) hcs
    obtain ⟨e2, st2, hi2, g2⟩ := removeAndRename_spec 0 1 _ e1
    have hb : backupShift c (closeStream s) = removeAndRename 0 1 (shiftLoop c 0 k (closeStream s)) := by
      simp [backupShift, doRollover_rangeStep, doRollover_rangeStop, doRollover_rangeStart,
        doRollover_liveSrcIdx, doRollover_liveDstIdx, hk]
    simp only [doRollover_g2, ilt_iff, hN, if_true, hb, decide_true]
    rw [okThen_ok _ _ e2]
    obtain ⟨e3, st3, hi3, g3⟩ := openFile_trunc_spec 0 (removeAndRename 0 1 (shiftLoop c 0 k (closeStream s)))
    simp only [doRollover_openIdx, doRollover_openTruncates]
    refine ⟨e3.trans e2, st3, by rw [hi3, hi2, hi1]; rfl, ?_⟩
    intro n
    rw [g3 n, hi2, hi1, g2]
    have g1' : ∀ m, (shiftLoop c 0 k (closeStream s)).dir.get m = shiftSpec k s.dir.get m := g1
    have hh : (closeStream s).hist = s.hist := rfl
    simp only [rrSpec, g1', shiftSpec, rollSpec, hN, if_true, hh]
    generalize s.dir.get = g
    rw [hk]
    clear g1 g1' g2 g3 e1 e2 e3 st1 st2 st3 hi1 hi2 hi3 hb hcs
    by_cases h0 : (g 0).isSome = true
    · grind
    · have h0' : g 0 = none := by simpa using h0
      grind
  · have hcs : (closeStream s).err = none := h
    simp only [doRollover_g2, ilt_iff, hN, if_false, decide_false]
    rw [okThen_ok _ _ hcs]
    obtain ⟨e3, st3, hi3, g3⟩ := openFile_trunc_spec 0 (closeStream s)
    simp only [doRollover_openIdx, doRollover_openTruncates]
    refine ⟨e3.trans hcs, st3, hi3, ?_⟩
    intro n
    rw [g3 n]
    simp [rollSpec, hN, closeStream]

theorem doRollover_attached (c : Cfg) (s : S) (f : File) (n : Int) (h : s.err = none)
    (hs : s.stream = .attached n) (hf : s.dir.get n = some f) (hm : 0 < c.maxBytes) :
    doRollover c s = if (f.data.length : Int) < c.maxBytes then s else rolloverBody c s := by
  unfold doRollover
  rw [okThen_ok _ _ h]
  have hm' : ¬ c.maxBytes ≤ 0 := by omega
  simp only [doRollover_g0, doRollover_g1, streamTell, hs, hf, Option.map_some, ile_iff, hm',
    decide_false, Bool.false_eq_true, if_false]
  by_cases hl : (f.data.length : Int) < c.maxBytes
  · have : ¬ c.maxBytes ≤ (f.data.length : Int) := by omega
    simp [hl, this]
  · have : c.maxBytes ≤ (f.data.length : Int) := by omega
    simp [hl, this]

theorem doRollover_detached (c : Cfg) (s : S) (f : File) (h : s.err = none)
    (hs : s.stream = .detached f) (hm : 0 < c.maxBytes) :
    doRollover c s = if (f.data.length : Int) < c.maxBytes then s else rolloverBody c s := by
  unfold doRollover
  rw [okThen_ok _ _ h]
  have hm' : ¬ c.maxBytes ≤ 0 := by omega
  simp only [doRollover_g0, doRollover_g1, streamTell, hs, ile_iff, hm',
    decide_false, Bool.false_eq_true, if_false]
  by_cases hl : (f.data.length : Int) < c.maxBytes
  · have : ¬ c.maxBytes ≤ (f.data.length : Int) := by omega
    simp [hl, this]
  · have : c.maxBytes ≤ (f.data.length : Int) := by omega
    simp [hl, this]

theorem doRollover_off (c : Cfg) (s : S) (h : c.maxBytes ≤ 0) : doRollover c s = s := by
  unfold doRollover okThen
  split
  · rfl
  · simp [doRollover_g0, h]

/-! ### the invariant of histories made of writes, reopens and clears -/

structure InvB (c : Cfg) (s : S) : Prop where
  ok : s.err = none
  att : s.stream = .attached 0
  live : ∃ f, s.dir.get 0 = some f ∧ (f.data.length : Int) < c.maxBytes
  contig : ∀ n, 0 ≤ n → (s.dir.get (n + 1)).isSome = true → (s.dir.get n).isSome = true
  bounded : ∀ n, (s.dir.get n).isSome = true → 0 ≤ n ∧ n ≤ c.backupCount
  full : ∀ n f, 1 ≤ n → s.dir.get n = some f → c.maxBytes ≤ (f.data.length : Int)

/-- what a write does to the directory of a state satisfying `InvB`, pointwise -/
def writeDir (c : Cfg) (s : S) (f : File) (b : Bytes) : Int → Option File := fun n =>
  if ((f.data ++ b).length : Int) < c.maxBytes then
    (if n = 0 then some ⟨f.start, f.own, f.data ++ b⟩ else s.dir.get n)
  else
    (if n = 0 then some ⟨s.hist + b.length, true, []⟩
     else if n = 1 ∧ 1 ≤ c.backupCount then some ⟨f.start, f.own, f.data ++ b⟩
     else if 2 ≤ n ∧ n ≤ c.backupCount then s.dir.get (n - 1)
     else none)

theorem emit_InvB (c : Cfg) (hr : c.rotating = true) (hm : 0 < c.maxBytes)
    (s : S) (I : InvB c s) (b : Bytes) (f : File) (hf : s.dir.get 0 = some f) :
    (emit c b s).err = none ∧ (emit c b s).stream = .attached 0 ∧
    (emit c b s).hist = s.hist + b.length ∧
    ∀ n, (emit c b s).dir.get n = writeDir c s f b n := by
  obtain ⟨ok, att, live, contig, bounded, full⟩ := I
  unfold emit
  rw [okThen_ok _ _ ok]
  simp only [hr, if_true]
  have hs1 : ({ streamWrite b s with hist := s.hist + b.length } : S) =
      ⟨dirSet s.dir 0 ⟨f.start, f.own, f.data ++ b⟩, .attached 0, s.hist + b.length, none⟩ := by
    simp [streamWrite, att, hf, ok]
  rw [hs1]
  rw [doRollover_attached c _ ⟨f.start, f.own, f.data ++ b⟩ 0 rfl rfl (by simp) hm]
  by_cases hl : ((f.data ++ b).length : Int) < c.maxBytes
  · rw [if_pos hl]
    refine ⟨rfl, rfl, rfl, ?_⟩
    intro n
    simp only [writeDir, if_pos hl, get_dirSet]
  · rw [if_neg hl]
    obtain ⟨e, st, hi, g⟩ := rolloverBody_spec c
      ⟨dirSet s.dir 0 ⟨f.start, f.own, f.data ++ b⟩, .attached 0, s.hist + b.length, none⟩ rfl
    refine ⟨e, st, hi, ?_⟩
    intro n
    rw [g n]
    simp only [rollSpec, writeDir, if_neg hl, get_dirSet]
    have hb := bounded n
    have hb1 := bounded (n - 1)
    have hc := contig (n - 1)
    clear hs1 live full hf contig bounded g e st hi
    have key : ∀ g : Int → Option File,
        ((g n).isSome = true → 0 ≤ n ∧ n ≤ c.backupCount) →
        (0 ≤ n - 1 → (g (n - 1 + 1)).isSome = true → (g (n - 1)).isSome = true) →
        (if n = 0 then some (⟨s.hist + b.length, true, []⟩ : File)
          else if 0 < c.backupCount then
            (if n = 1 then (if True then some (⟨f.start, f.own, f.data ++ b⟩ : File) else g 0)
             else if 2 ≤ n ∧ n ≤ c.backupCount then
               (if (if n - 1 = 0 then some (⟨f.start, f.own, f.data ++ b⟩ : File) else g (n - 1)).isSome = true then
                  (if n - 1 = 0 then some ⟨f.start, f.own, f.data ++ b⟩ else g (n - 1))
                else if n = c.backupCount then (if n = 0 then some ⟨f.start, f.own, f.data ++ b⟩ else g n) else none)
             else (if n = 0 then some ⟨f.start, f.own, f.data ++ b⟩ else g n))
          else (if n = 0 then some ⟨f.start, f.own, f.data ++ b⟩ else g n)) =
        (if n = 0 then some (⟨s.hist + b.length, true, []⟩ : File)
          else if n = 1 ∧ 1 ≤ c.backupCount then some ⟨f.start, f.own, f.data ++ b⟩
          else if 2 ≤ n ∧ n ≤ c.backupCount then g (n - 1) else none) := by
      intro g hb hc
      have e1 : n - 1 + 1 = n := by omega
      rw [e1] at hc
      cases hgn : g n with
      | none =>
        cases hg1 : g (n - 1) with
        | none => grind
        | some y => grind
      | some x =>
        have hb' := hb (by rw [hgn]; rfl)
        cases hg1 : g (n - 1) with
        | none =>
          have : ¬ 0 ≤ n - 1 := by
            intro h0
            have := hc h0 (by rw [hgn]; rfl)
            rw [hg1] at this
            simp at this
          grind
        | some y => grind
    exact key s.dir.get hb hc

theorem InvB_write (c : Cfg) (hr : c.rotating = true) (hm : 0 < c.maxBytes) (hN : 0 ≤ c.backupCount)
    (s : S) (I : InvB c s) (b : Bytes) : InvB c (emit c b s) := by
  obtain ⟨f, hf, hfl⟩ := I.live
  obtain ⟨e, st, _, g⟩ := emit_InvB c hr hm s I b f hf
  have contig := I.contig
  have bounded := I.bounded
  have full := I.full
  refine ⟨e, st, ?_, ?_, ?_, ?_⟩
  · rw [g 0]
    unfold writeDir
    by_cases hl : ((f.data ++ b).length : Int) < c.maxBytes
    · exact ⟨⟨f.start, f.own, f.data ++ b⟩, by simp only [if_pos hl, if_true], hl⟩
    · exact ⟨⟨s.hist + b.length, true, []⟩, by simp only [if_neg hl, if_true], by simpa using hm⟩
  · intro n hn
    rw [g n, g (n + 1)]
    unfold writeDir
    have c1 := contig n hn
    have c2 := contig (n - 1)
    have e1 : n - 1 + 1 = n := by omega
    have e2 : n + 1 - 1 = n := by omega
    rw [e1] at c2
    rw [e2]
    by_cases hl : ((f.data ++ b).length : Int) < c.maxBytes
    · simp only [if_pos hl]
      grind
    · simp only [if_neg hl]
      grind
  · intro n
    rw [g n]
    unfold writeDir
    have b1 := bounded n
    by_cases hl : ((f.data ++ b).length : Int) < c.maxBytes
    · simp only [if_pos hl]
      grind
    · simp only [if_neg hl]
      grind
  · intro n x hn
    rw [g n]
    unfold writeDir
    have f1 := full n x hn
    have f2 := full (n - 1) x
    by_cases hl : ((f.data ++ b).length : Int) < c.maxBytes
    · simp only [if_pos hl]
      grind
    · simp only [if_neg hl]
      have hn0 : ¬ n = 0 := by omega
      by_cases hn1 : n = 1
      · subst hn1
        simp only [hn0, if_false]
        by_cases h1 : (1 : Int) ≤ c.backupCount
        · simp only [h1, and_self, if_true]
          intro hx
          injection hx with hx
          subst hx
          show c.maxBytes ≤ ((f.data ++ b).length : Int)
          omega
        · have : ¬ ((2 : Int) ≤ 1 ∧ (1 : Int) ≤ c.backupCount) := by omega
          simp [h1, this]
      · have : ¬ (n = 1 ∧ 1 ≤ c.backupCount) := by omega
        simp only [hn0, this, if_false]
        by_cases h2 : 2 ≤ n ∧ n ≤ c.backupCount
        · simp only [h2, and_self, if_true]
          intro hx
          exact f2 (by omega) hx
        · simp [h2]

theorem modeTruncates_false (c : Cfg) : modeTruncates c = false := by
  unfold modeTruncates
  split <;> rfl

theorem fhReopen_spec (c : Cfg) (s : S) (h : s.err = none) :
    (fhReopen c s).err = none ∧ (fhReopen c s).stream = .attached 0 ∧ (fhReopen c s).hist = s.hist ∧
    ∀ n, (fhReopen c s).dir.get n =
      if n = 0 ∧ (s.dir.get 0).isSome = false then some ⟨s.hist, true, []⟩ else s.dir.get n := by
  unfold fhReopen
  rw [okThen_ok _ _ h]
  simp only [openFile, modeTruncates_false, fhReopen_idx, closeStream, fexists, Bool.false_or]
  cases h0 : s.dir.get 0 with
  | none =>
    simp only [Option.isSome_none, Bool.not_false, if_true]
    refine ⟨h, trivial, trivial, ?_⟩
    intro n
    simp
  | some x =>
    simp only [Option.isSome_some, Bool.not_true, Bool.false_eq_true, if_false]
    refine ⟨h, trivial, trivial, ?_⟩
    intro n
    by_cases hn : n = 0
    · subst hn; simp [h0]
    · simp [hn]

theorem fhRemove_spec (s : S) (h : s.err = none) :
    (fhRemove s).err = none ∧ (fhRemove s).stream = .closed ∧ (fhRemove s).hist = s.hist ∧
    ∀ n, (fhRemove s).dir.get n = if n = 0 then none else s.dir.get n := by
  unfold fhRemove
  rw [okThen_ok _ _ h]
  cases h0 : s.dir.get 0 with
  | none =>
    simp only [missingErrno, fexists, fhRemove_idx, h0, fhRemove_g0, ENOENT, closeStream]
    refine ⟨by simpa using h, by simp, by simp, ?_⟩
    intro n
    by_cases hn : n = 0
    · subst hn; simp [h0]
    · simp [hn]
  | some x =>
    simp only [missingErrno, fexists, fhRemove_idx, h0, closeStream]
    refine ⟨by simpa using h, by simp, by simp, ?_⟩
    intro n
    simp

theorem clear_spec (c : Cfg) (s : S) (h : s.err = none) :
    (fhReopen c (fhRemove s)).err = none ∧ (fhReopen c (fhRemove s)).stream = .attached 0 ∧
    (fhReopen c (fhRemove s)).hist = s.hist ∧
    ∀ n, (fhReopen c (fhRemove s)).dir.get n = if n = 0 then some ⟨s.hist, true, []⟩ else s.dir.get n := by
  obtain ⟨e1, _, h1, g1⟩ := fhRemove_spec s h
  obtain ⟨e2, s2, h2, g2⟩ := fhReopen_spec c _ e1
  refine ⟨e2, s2, h2.trans h1, ?_⟩
  intro n
  rw [g2 n, g1 0, g1 n, h1]
  by_cases hn : n = 0 <;> simp [hn]

theorem InvB_reopen (c : Cfg) (s : S) (I : InvB c s) : InvB c (fhReopen c s) := by
  obtain ⟨e, st, _, g⟩ := fhReopen_spec c s I.ok
  obtain ⟨f, hf, hfl⟩ := I.live
  have hg : ∀ n, (fhReopen c s).dir.get n = s.dir.get n := by
    intro n; rw [g n]; simp [hf]
  refine ⟨e, st, ⟨f, by rw [hg]; exact hf, hfl⟩, ?_, ?_, ?_⟩
  · intro n hn; rw [hg, hg]; exact I.contig n hn
  · intro n; rw [hg]; exact I.bounded n
  · intro n x hn; rw [hg]; exact I.full n x hn

theorem InvB_clear (c : Cfg) (hm : 0 < c.maxBytes) (s : S) (I : InvB c s) :
    InvB c (fhReopen c (fhRemove s)) := by
  obtain ⟨e, st, _, g⟩ := clear_spec c s I.ok
  obtain ⟨f, hf, hfl⟩ := I.live
  refine ⟨e, st, ⟨⟨s.hist, true, []⟩, by rw [g]; simp, by simpa using hm⟩, ?_, ?_, ?_⟩
  · intro n hn
    rw [g, g]
    have := I.contig n hn
    have hn1 : ¬ n + 1 = 0 := by omega
    simp only [hn1, if_false]
    by_cases h0 : n = 0
    · simp [h0]
    · simpa [h0] using this
  · intro n
    rw [g]
    by_cases h0 : n = 0
    · intro _
      have := I.bounded 0 (by rw [hf]; rfl)
      subst h0; exact this
    · simpa [h0] using I.bounded n
  · intro n x hn
    rw [g]
    have h0 : ¬ n = 0 := by omega
    simpa [h0] using I.full n x hn

theorem InvB_init (c : Cfg) (hm : 0 < c.maxBytes) (hN : 0 ≤ c.backupCount) : InvB c (init c) := by
  have hg : ∀ n, (init c).dir.get n = if n = 0 then some ⟨0, true, []⟩ else none := by
    intro n
    simp [init, openFile, fexists]
  refine ⟨by simp [init, openFile, fexists], by simp [init, openFile, fexists], ⟨⟨0, true, []⟩, by rw [hg]; simp, by simpa using hm⟩, ?_, ?_, ?_⟩
  · intro n hn
    rw [hg, hg]
    have : ¬ n + 1 = 0 := by omega
    simp [this]
  · intro n
    rw [hg]
    by_cases h0 : n = 0
    · subst h0; intro _; omega
    · simp [h0]
  · intro n x hn
    rw [hg]
    have : ¬ n = 0 := by omega
    simp [this]

/-! ### the concatenation `.N ++ … ++ .1 ++ log` -/

def content (g : Int → Option File) (n : Int) : Bytes :=
  match g n with
  | some f => f.data
  | none => []

/-- `chain g k` = content of `.k` ++ … ++ content of `.1` ++ content of the log -/
def chain (g : Int → Option File) : Nat → Bytes
  | 0 => content g 0
  | k + 1 => content g ((k + 1 : Nat) : Int) ++ chain g k

theorem chain_append0 (g g' : Int → Option File) (b : Bytes)
    (h0 : content g' 0 = content g 0 ++ b) (h : ∀ n : Int, 1 ≤ n → content g' n = content g n) :
    ∀ k, chain g' k = chain g k ++ b := by
  intro k
  induction k with
  | zero => simpa [chain] using h0
  | succ k ih =>
    simp only [chain, ih, List.append_assoc]
    rw [h _ (by omega)]

theorem chain_shift (g g' : Int → Option File) (k : Nat)
    (h : ∀ n : Nat, n ≤ k → content g' ((n : Int) + 1) = content g (n : Int)) :
    chain g' (k + 1) = chain g k ++ content g' 0 := by
  induction k with
  | zero =>
    have := h 0 (by omega)
    simp only [chain]
    simpa using congrArg (· ++ content g' 0) this
  | succ k ih =>
    have ih' := ih (fun n hn => h n (by omega))
    have hk := h (k + 1) (by omega)
    rw [chain, ih', chain]
    have e : (((k + 1 + 1 : Nat)) : Int) = ((k + 1 : Nat) : Int) + 1 := by omega
    rw [e, hk, List.append_assoc]

theorem chain_write (c : Cfg) (hr : c.rotating = true) (hm : 0 < c.maxBytes) (hN : 0 ≤ c.backupCount)
    (s : S) (I : InvB c s) (b : Bytes) :
    ∃ d : List Bytes, chain s.dir.get c.backupCount.toNat ++ b
        = d.flatten ++ chain (emit c b s).dir.get c.backupCount.toNat ∧
      ∀ x ∈ d, c.maxBytes ≤ (x.length : Int) := by
  obtain ⟨f, hf, hfl⟩ := I.live
  obtain ⟨_, _, _, g⟩ := emit_InvB c hr hm s I b f hf
  have hg : (emit c b s).dir.get = writeDir c s f b := funext g
  rw [hg]
  by_cases hl : ((f.data ++ b).length : Int) < c.maxBytes
  · have hl' : (f.data.length : Int) + (b.length : Int) < c.maxBytes := by simpa using hl
    refine ⟨[], ?_, by simp⟩
    simp only [List.flatten_nil, List.nil_append]
    symm
    apply chain_append0
    · simp [content, writeDir, hl, hl', hf]
    · intro n hn
      have : ¬ n = 0 := by omega
      simp [content, writeDir, hl, hl', this]
  · -- a rollover
    have hl' : ¬ (f.data.length : Int) + (b.length : Int) < c.maxBytes := by simpa using hl
    let g1 : Int → Option File := fun n => if n = 0 then some ⟨f.start, f.own, f.data ++ b⟩ else s.dir.get n
    have h1 : ∀ k, chain g1 k = chain s.dir.get k ++ b := by
      apply chain_append0
      · simp [content, g1, hf]
      · intro n hn
        have : ¬ n = 0 := by omega
        simp [content, g1, this]
    rw [← h1]
    cases hk : c.backupCount.toNat with
    | zero =>
      have hN0 : c.backupCount = 0 := by omega
      refine ⟨[f.data ++ b], ?_, ?_⟩
      · simp [chain, content, writeDir, hl, hl', g1]
      · intro x hx
        simp only [List.mem_singleton] at hx
        subst hx
        omega
    | succ k =>
      have hNk : c.backupCount = (k : Int) + 1 := by omega
      have hs : chain (writeDir c s f b) (k + 1) = chain g1 k ++ content (writeDir c s f b) 0 := by
        apply chain_shift
        intro n hn
        by_cases hn0 : n = 0
        · subst hn0
          have : (1 : Int) ≤ c.backupCount := by omega
          simp [content, writeDir, hl, hl', g1, this]
        · have a1 : ¬ ((n : Int) + 1 = 0) := by omega
          have a2 : ¬ ((n : Int) + 1 = 1 ∧ 1 ≤ c.backupCount) := by omega
          have a3 : 2 ≤ (n : Int) + 1 ∧ (n : Int) + 1 ≤ c.backupCount := by omega
          have a4 : ¬ ((n : Int) = 0) := by omega
          have a5 : (n : Int) + 1 - 1 = n := by omega
          simp [content, writeDir, hl, hl', g1, a1, a2, a3, a4, a5, hn0]
      have hc0 : content (writeDir c s f b) 0 = [] := by simp [content, writeDir, hl, hl']
      rw [hs, hc0, List.append_nil]
      have hk1 : ¬ ((k : Int) + 1 = 0) := by omega
      cases hp : s.dir.get ((k : Int) + 1) with
      | none =>
        refine ⟨[], ?_, by simp⟩
        simp [chain, content, g1, hk1, hp]
      | some x =>
        refine ⟨[x.data], ?_, ?_⟩
        · simp [chain, content, g1, hk1, hp]
        · intro y hy
          simp only [List.mem_singleton] at hy
          subst hy
          exact I.full _ x (by omega) hp

/-! ### writes in arbitrary (also externally disturbed) states -/

theorem emit_attached_gen (c : Cfg) (hr : c.rotating = true) (hm : 0 < c.maxBytes)
    (s : S) (h : s.err = none) (hs : s.stream = .attached 0) (f : File) (hf : s.dir.get 0 = some f) (b : Bytes) :
    (emit c b s).err = none ∧ (emit c b s).stream = .attached 0 ∧ (emit c b s).hist = s.hist + b.length ∧
    ∀ n, (emit c b s).dir.get n =
      if ((f.data ++ b).length : Int) < c.maxBytes then
        (if n = 0 then some ⟨f.start, f.own, f.data ++ b⟩ else s.dir.get n)
      else rollSpec c.backupCount (s.hist + b.length)
        (fun m => if m = 0 then some ⟨f.start, f.own, f.data ++ b⟩ else s.dir.get m) n := by
  unfold emit
  rw [okThen_ok _ _ h]
  simp only [hr, if_true]
  have hs1 : ({ streamWrite b s with hist := s.hist + b.length } : S) =
      ⟨dirSet s.dir 0 ⟨f.start, f.own, f.data ++ b⟩, .attached 0, s.hist + b.length, none⟩ := by
    simp [streamWrite, hs, hf, h]
  rw [hs1]
  rw [doRollover_attached c _ ⟨f.start, f.own, f.data ++ b⟩ 0 rfl rfl (by simp) hm]
  by_cases hl : ((f.data ++ b).length : Int) < c.maxBytes
  · rw [if_pos hl]
    refine ⟨rfl, rfl, rfl, ?_⟩
    intro n
    simp only [if_pos hl, get_dirSet]
  · rw [if_neg hl]
    obtain ⟨e, st, hi, g⟩ := rolloverBody_spec c
      ⟨dirSet s.dir 0 ⟨f.start, f.own, f.data ++ b⟩, .attached 0, s.hist + b.length, none⟩ rfl
    refine ⟨e, st, hi, ?_⟩
    intro n
    rw [g n]
    simp only [if_neg hl]
    rfl

theorem emit_detached_gen (c : Cfg) (hr : c.rotating = true) (hm : 0 < c.maxBytes)
    (s : S) (h : s.err = none) (f : File) (hs : s.stream = .detached f) (b : Bytes) :
    (emit c b s).err = none ∧ (emit c b s).hist = s.hist + b.length ∧
    (if ((f.data ++ b).length : Int) < c.maxBytes then
        (emit c b s).stream = .detached ⟨f.start, f.own, f.data ++ b⟩ ∧ ∀ n, (emit c b s).dir.get n = s.dir.get n
     else (emit c b s).stream = .attached 0 ∧
        ∀ n, (emit c b s).dir.get n = rollSpec c.backupCount (s.hist + b.length) s.dir.get n) := by
  unfold emit
  rw [okThen_ok _ _ h]
  simp only [hr, if_true]
  have hs1 : ({ streamWrite b s with hist := s.hist + b.length } : S) =
      ⟨s.dir, .detached ⟨f.start, f.own, f.data ++ b⟩, s.hist + b.length, none⟩ := by
    simp [streamWrite, hs, h]
  rw [hs1]
  rw [doRollover_detached c _ ⟨f.start, f.own, f.data ++ b⟩ rfl rfl hm]
  by_cases hl : ((f.data ++ b).length : Int) < c.maxBytes
  · rw [if_pos hl, if_pos hl]
    exact ⟨rfl, rfl, rfl, fun _ => rfl⟩
  · rw [if_neg hl, if_neg hl]
    obtain ⟨e, st, hi, g⟩ := rolloverBody_spec c
      ⟨s.dir, .detached ⟨f.start, f.own, f.data ++ b⟩, s.hist + b.length, none⟩ rfl
    exact ⟨e, hi, st, g⟩

/-- the stream is open -/
def WFstream (s : S) : Prop := s.stream = .attached 0 ∨ ∃ f, s.stream = .detached f

/-- well-formed handler state: no escaped exception, the stream is open, and an attached stream
    has its file -/
structure WF (s : S) : Prop where
  ok : s.err = none
  open_ : (s.stream = .attached 0 ∧ (s.dir.get 0).isSome = true) ∨ ∃ f, s.stream = .detached f

theorem rollSpec_bounded (N : Int) (hN : 0 ≤ N) (hist : Nat) (g : Int → Option File)
    (hb : ∀ n, (g n).isSome = true → 0 ≤ n ∧ n ≤ N) (n : Int)
    (h : (rollSpec N hist g n).isSome = true) : 0 ≤ n ∧ n ≤ N := by
  have := hb n
  unfold rollSpec at h
  grind

theorem ext_spec (n : Int) (s : S) (I : WF s) (upd : Dir → Dir)
    (op : S → S) (hop : op = okThen fun s => okThen (fun s1 => { s1 with dir := upd s1.dir }) (detachAt n s)) :
    WFstream (op s) ∧ (op s).err = none ∧ (op s).hist = s.hist ∧ (op s).dir = upd s.dir ∧
    ((op s).stream = .attached 0 → s.stream = .attached 0 ∧ n ≠ 0) := by
  subst hop
  rw [okThen_ok _ _ I.ok]
  rcases I.open_ with ⟨ha, hp⟩ | ⟨f, hd⟩
  · by_cases hn : n = 0
    · subst hn
      cases h0 : s.dir.get 0 with
      | none => rw [h0] at hp; simp at hp
      | some f =>
        have : detachAt 0 s = { s with stream := .detached f } := by simp [detachAt, ha, h0]
        rw [this, okThen_ok _ _ (by exact I.ok)]
        exact ⟨Or.inr ⟨f, rfl⟩, I.ok, rfl, rfl, by simp⟩
    · have hn' : ¬ (0 : Int) = n := fun h => hn h.symm
      have : detachAt n s = s := by simp [detachAt, ha, hn']
      rw [this, okThen_ok _ _ I.ok]
      exact ⟨Or.inl ha, I.ok, rfl, rfl, fun _ => ⟨ha, hn⟩⟩
  · have : detachAt n s = s := by simp [detachAt, hd]
    rw [this, okThen_ok _ _ I.ok]
    refine ⟨Or.inr ⟨f, hd⟩, I.ok, rfl, rfl, ?_⟩
    intro h
    rw [hd] at h
    simp at h

theorem chain_congr (g g' : Int → Option File) (h : ∀ n, g' n = g n) (k : Nat) : chain g' k = chain g k := by
  have : g' = g := funext h
  rw [this]

end Sv.Rotate
