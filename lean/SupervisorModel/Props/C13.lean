import SupervisorModel.Lemmas.SupLemmas
/-
  C13 — start/stop/signal RPC answers agree with what happened to the process.
  Per-process RPC layer (Model/ProcOps.lean: `_update` gate, state guards, spawn/stop/signal,
  answer) and the deferred answers of the daemon model (Model/Sup.lean: `onwait` callbacks polled by
  the loop).  Group/all forms (`make_allfunc`) are covered by the monitor only.
-/
set_option linter.unusedSimpArgs false
set_option linter.unusedVariables false
namespace Sv.Props.C13
open Sv Sv.Proc Sv.Gen.Proc Sv.Sup Sv.Gen.Sup

def answers (outs : List Out) : List Int := outs.filterMap fun o => match o with | .answer c => some c | _ => none
def kills (outs : List Out) : List Out := outs.filter fun o => match o with | .kill .. => true | _ => false

/-- the fault `startProcess` answers when it refuses before spawning -/
def startFault (p : Proc) (mood : Int) (res : SpawnRes) : Int :=
  if mood < moodRUNNING then faultSHUTDOWN_STATE else if res = .badCmd then faultNO_FILE
  else if p.state ∈ runningStates then faultALREADY_STARTED else if p.state = .unknown then faultFAILED
  else faultABNORMAL_TERMINATION

/-- **startProcess forks only for a process that is not starting, running or backing off** (nor
    UNKNOWN, nor being stopped), and only when the daemon is running and the command file exists:
    otherwise the call answers exactly the documented fault and does nothing else. -/
theorem start_forks_only_if_eligible (cfg : Cfg) (p : Proc) (now mood : Int) (res : SpawnRes)
    (h : mood < moodRUNNING ∨ res = .badCmd ∨ p.state ∈ runningStates ∨ p.state = .unknown ∨ p.state = .stopping) :
    rpcStart cfg now mood res { p := p } = { p := p, outs := [.answer (startFault p mood res)] } := by
  by_cases hm : mood < moodRUNNING
  · simp [rpcStart, guard, answer, emit, hm, startFault]
  · by_cases hb : res = .badCmd
    · simp [rpcStart, startRefusal, guard, answer, emit, hm, hb, startFault]
    · by_cases hr : p.state ∈ runningStates
      · simp [rpcStart, startRefusal, guard, answer, emit, hm, hb, hr, startFault]
      · by_cases hu : p.state = .unknown
        · simp [rpcStart, startRefusal, guard, answer, emit, hm, hb, hr, hu, startFault, runningStates]
        · have hs : p.state = .stopping := by
            rcases h with h | h | h | h | h <;> simp_all
          simp [rpcStart, startRefusal, guard, answer, emit, hm, hb, hr, hu, hs, startFault, runningStates]

theorem startFault_not_success (p : Proc) (mood : Int) (res : SpawnRes) : startFault p mood res ≠ faultSUCCESS := by
  simp only [startFault]
  (repeat' split) <;> decide

/-- what `spawn()` does for an eligible process, by environment answer -/
theorem spawn_eligible (cfg : Cfg) (p : Proc) (now : Int) (res : SpawnRes) (hw : wfSpawn res)
    (hst : p.state = .exited ∨ p.state = .stopped ∨ p.state = .backoff ∨ p.state = .fatal) (hp : p.pid = 0) :
    let r := spawn cfg now res { p := p }
    r.err = none ∧
    ((∃ pid, res = .ok pid ∧ r.p.spawnerr = false ∧ r.p.pid = pid ∧ pid ≠ 0 ∧ forks r.outs = [.fork pid]) ∨
     (r.p.spawnerr = true ∧ forks r.outs = [] ∧ r.p.pid = 0)) := by
  cases res with
  | ok pid =>
    have hpid : pid ≠ 0 := hw
    rcases hst with hs | hs | hs | hs <;> simp [procdefs, hs, hp, hpid, forks]
  | badCmd => rcases hst with hs | hs | hs | hs <;> simp [procdefs, hs, hp, forks]
  | pipeErr => rcases hst with hs | hs | hs | hs <;> simp [procdefs, hs, hp, forks]
  | forkErr => rcases hst with hs | hs | hs | hs <;> simp [procdefs, hs, hp, forks]

theorem emit_answer_outs (c : Int) (s : S) (he : s.err = none) : (answer c s).outs = s.outs ++ [.answer c] ∧ (answer c s).p = s.p := by
  obtain ⟨q, os, err⟩ := s
  simp only at he; subst he
  simp [answer, emit, guard]

/-- **startProcess answers true only if this call started a child** — exactly one, for this
    process, which it now holds — and answers SPAWN_ERROR when the attempt could not be spawned
    (command lookup, pipe creation or fork failed), in which case nothing was forked. -/
theorem start_true_sound (cfg : Cfg) (p : Proc) (now mood : Int) (res : SpawnRes) (hi : Inv p) (hw : wfSpawn res)
    (hm : ¬ mood < moodRUNNING) (hb : res ≠ .badCmd)
    (hst : p.state = .exited ∨ p.state = .stopped ∨ p.state = .fatal) :
    let r := rpcStart cfg now mood res { p := p }
    (r.outs.getLast? = some (.answer faultSUCCESS) ∧ ∃ pid, res = .ok pid ∧ forks r.outs = [.fork pid] ∧ pid ≠ 0) ∨
    (r.outs.getLast? = some (.answer faultSPAWN_ERROR) ∧ forks r.outs = [] ∧ r.p.pid = 0) := by
  have hst' : p.state = .exited ∨ p.state = .stopped ∨ p.state = .backoff ∨ p.state = .fatal := by
    rcases hst with hs | hs | hs <;> simp [hs]
  have hp : p.pid = 0 := by apply hi.dead; rcases hst with hs | hs | hs <;> simp [hs]
  have href : startRefusal p (res == .badCmd) = none := by
    rcases hst with hs | hs | hs <;> simp [startRefusal, hs, hb, runningStates]
  obtain ⟨hok, hsp⟩ := spawn_eligible cfg p now res hw hst' hp
  simp only [rpcStart, guard, Option.isSome_none, Bool.false_eq_true, if_false, hm, ilt_iff, href]
  rcases hsp with ⟨pid, hres, hse, hpid, hpid0, hfk⟩ | ⟨hse, hfk, hp0⟩
  · left
    simp only [hse, Bool.false_eq_true, if_false]
    have hinv := spawn_inv cfg now res { p := p } hw hi
    have htok : (transition cfg now mood res .ok (spawn cfg now res { p := p })).err = none := by
      generalize hr : spawn cfg now res { p := p } = r at *
      obtain ⟨q, os, err⟩ := r
      simp only at hok; subst hok
      exact transition_ok os cfg q now mood res .ok hinv
    obtain ⟨ho, hpp⟩ := emit_answer_outs faultSUCCESS _ htok
    have hnf := transition_noFork_of_pid cfg now mood res .ok (spawn cfg now res { p := p }) (by rw [hpid]; exact hpid0)
    rw [ho]
    refine ⟨by simp, pid, hres, ?_, hpid0⟩
    rw [forks_append, hnf, hfk]
    simp [forks]
  · right
    simp only [hse, if_true]
    obtain ⟨ho, hpp⟩ := emit_answer_outs faultSPAWN_ERROR _ hok
    rw [ho, hpp]
    refine ⟨by simp, ?_, hp0⟩
    rw [forks_append, hfk]
    simp [forks]

/-- **stopProcess answers NOT_RUNNING exactly for a process that is not starting, running or
    backing off**, without signalling anything -/
theorem stop_not_running_exact (cfg : Cfg) (p : Proc) (now mood : Int) (kr : KillRes) (hm : ¬ mood < moodRUNNING) :
    (p.state ∉ runningStates →
      rpcStop cfg now mood kr { p := p } = { p := p, outs := [.answer faultNOT_RUNNING] }) ∧
    (p.state ∈ runningStates →
      (rpcStop cfg now mood kr { p := p }).outs.getLast? ≠ some (.answer faultNOT_RUNNING)) := by
  constructor
  · intro h
    simp [rpcStop, guard, answer, emit, hm, h]
  · intro h
    have hok := stop_ok [] cfg now kr p (by simp [runningStates] at h; rcases h with h | h | h <;> simp [h])
    simp only [rpcStop, guard, Option.isSome_none, Bool.false_eq_true, if_false, hm, ilt_iff, h, decide_true, Bool.not_true]
    obtain ⟨ho, _⟩ := emit_answer_outs (if ((p.state != .backoff && p.pid == 0) || (p.state != .backoff && kr == .fail)) = true
      then faultFAILED else faultSUCCESS) _ hok
    rw [ho]
    simp only [List.getLast?_append, List.getLast?_singleton, Option.some_or]
    split <;> decide

/-- **stopProcess that answers true has signalled the child or cancelled the retry**: the process is
    then STOPPING (signal delivered or child already gone) or, from BACKOFF, STOPPED at once -/
theorem stop_true_sound (cfg : Cfg) (p : Proc) (now mood : Int) (kr : KillRes) (hi : Inv p) (hm : ¬ mood < moodRUNNING)
    (hs : p.state ∈ runningStates) (hk : kr ≠ .fail) :
    let r := rpcStop cfg now mood kr { p := p }
    r.outs.getLast? = some (.answer faultSUCCESS) ∧
    ((p.state = .backoff ∧ r.p.state = .stopped ∧ kills r.outs = []) ∨
     (p.state ≠ .backoff ∧ r.p.state = .stopping ∧ r.p.pid = p.pid ∧
        kills r.outs = [.kill (if cfg.stopasgroup then -p.pid else p.pid) cfg.stopsignal])) := by
  simp only [moodRUNNING] at hm
  simp [runningStates] at hs
  rcases hs with h | h | h
  · have hp : p.pid ≠ 0 := by apply hi.live; simp [h]
    cases kr <;> (try simp at hk) <;> cases hg : cfg.stopasgroup <;>
      simp [procdefs, kills, runningStates, signallableStates, h, hp, hg, hm]
  · cases kr <;> (try simp at hk) <;>
      simp [procdefs, kills, runningStates, signallableStates, h, hm]
  · have hp : p.pid ≠ 0 := by apply hi.live; simp [h]
    cases kr <;> (try simp at hk) <;> cases hg : cfg.stopasgroup <;>
      simp [procdefs, kills, runningStates, signallableStates, h, hp, hg, hm]

/-- **signalProcess delivers exactly the named signal to exactly the named process's child and
    nothing else**: one `kill(pid, sig)` with the positive pid (never the process group), no state
    change unless delivery failed -/
theorem signal_exact (cfg : Cfg) (p : Proc) (now mood sig : Int) (kr : KillRes) (hi : Inv p) (hm : ¬ mood < moodRUNNING)
    (hs : p.state ∈ signallableStates) :
    let r := rpcSignal cfg now mood sig kr { p := p }
    kills r.outs = [.kill p.pid sig] ∧ p.pid ≠ 0 ∧ (kr ≠ .fail → r.p = p ∧ r.outs.getLast? = some (.answer faultSUCCESS)) ∧
    (kr = .fail → r.outs.getLast? = some (.answer faultFAILED)) := by
  simp only [moodRUNNING] at hm
  simp [signallableStates] at hs
  have hp : p.pid ≠ 0 := by apply hi.live; rcases hs with h | h | h <;> simp [h]
  rcases hs with h | h | h <;> cases kr <;> simp [procdefs, kills, signallableStates, h, hp, hm]

/-- signalProcess on a process that cannot be signalled answers NOT_RUNNING and delivers nothing -/
theorem signal_not_running (cfg : Cfg) (p : Proc) (now mood sig : Int) (kr : KillRes) (hm : ¬ mood < moodRUNNING)
    (hs : p.state ∉ signallableStates) :
    rpcSignal cfg now mood sig kr { p := p } = { p := p, outs := [.answer faultNOT_RUNNING] } := by
  simp [rpcSignal, guard, answer, emit, hm, hs]

/-- **Deferred start answers** (`wait=true`): the callback the loop polls answers true only when
    the process is RUNNING (and not marked with a spawn error), SPAWN_ERROR / ABNORMAL_TERMINATION
    when the attempt has failed, and stays pending exactly while the process is STARTING -/
theorem deferred_start_sound (p : Proc) :
    (startWaitAnswer p = some faultSUCCESS ↔ p.spawnerr = false ∧ p.state = .running) ∧
    (startWaitAnswer p = none ↔ p.spawnerr = false ∧ p.state = .starting) := by
  cases hs : p.state <;> cases he : p.spawnerr <;>
    simp [startWaitAnswer, hs, he, faultSUCCESS, faultSPAWN_ERROR, faultABNORMAL_TERMINATION]

/-- **Deferred stop answers** (`wait=true`): the callback answers true only once the process is in
    a stopped state — where, by the bookkeeping invariant, it holds no child -/
theorem deferred_stop_sound (p : Proc) (hi : Inv p) (c : Int) (h : stopWaitAnswer p = some c) :
    c = faultSUCCESS ∧ p.state ∈ stoppedStates ∧ (p.state ≠ .unknown → p.pid = 0) := by
  simp only [stopWaitAnswer] at h
  split at h
  · simp at h
  · rename_i hst
    simp at hst h
    refine ⟨h.symm, hst, ?_⟩
    intro hu
    apply hi.dead
    simp [stoppedStates] at hst
    rcases hst with h1 | h1 | h1 | h1 <;> simp_all

-- non-vacuity
example : startWaitAnswer { state := .running } = some faultSUCCESS := by decide
example : stopWaitAnswer { state := .stopping, pid := 5 } = none := by decide

end Sv.Props.C13
