import SupervisorModel.Basic.Bytes
import SupervisorModel.Generated.Notify
import SupervisorModel.Model.OutDisp
/-
  What is announced, and when: interpreters of the statement sequences regenerated from /repo
  (`Sv.Gen.Notify`) for

  * `Supervisor.add_process_group` / `remove_process_group` (supervisor/supervisord.py): the table
    `self.process_groups`, the PROCESS_GROUP_ADDED / _REMOVED notifications and the result, with
    an exception possible at every opaque call (`after_setuid`, `make_group`, `before_remove`);
  * `Subprocess.finish` (supervisor/process.py): the output notifications produced by `drain()`
    and by the flush of held-back output (through the dispatcher model `Sv.OutDisp`), each
    stamped with `self.pid` as it is at that moment, the state notification, `self.pid = 0`, the
    discarding of the dispatchers;
  * `Subprocess.change_state`: the values the state notification is created from.

  The *order* of the steps is not written here: it is the generated list.
-/
namespace Sv.Notify
open Sv.Gen.Notify

/-! ### process groups -/

/-- a PROCESS_GROUP notification as a subscriber sees it: the event class, the group named, and
    whether that group is in `supervisord.process_groups` at the moment of the notification -/
structure Note where
  cls : String
  group : String
  present : Bool
deriving DecidableEq, Repr

inductive Res
  | ret (b : Bool)
  | raised (what : String)
deriving DecidableEq, Repr

structure G where
  groups : List String          -- keys of self.process_groups, in insertion order
  notes : List Note := []
  res : Option Res := none      -- none = still executing
deriving DecidableEq, Repr

/-- one statement; `fault` names the opaque call that raises in this execution (if any),
    `unstopped` is what `get_unstopped_processes()` answers (non-empty or not) -/
def step (g : String) (fault : Option String) (unstopped : Bool) (s : G) (st : Step) : G :=
  if s.res.isSome then s else
  match st with
  | .call f => if fault = some f then { s with res := some (.raised f) } else s
  | .insertMade f =>
    if fault = some f then { s with res := some (.raised f) }
    else { s with groups := if g ∈ s.groups then s.groups else s.groups ++ [g] }
  | .delete =>
    if g ∈ s.groups then { s with groups := s.groups.filter (· ≠ g) }
    else { s with res := some (.raised "KeyError") }
  | .notify cls => { s with notes := s.notes ++ [⟨cls, g, decide (g ∈ s.groups)⟩] }
  | .ret b => { s with res := some (.ret b) }
  | .retIfUnstopped b =>
    if g ∈ s.groups then (if unstopped then { s with res := some (.ret b) } else s)
    else { s with res := some (.raised "KeyError") }

def run (g : String) (fault : Option String) (unstopped : Bool) (steps : List Step) (s : G) : G :=
  steps.foldl (step g fault unstopped) s

/-- `supervisord.add_process_group(config)` with `config.name = g` -/
def addGroup (gs : List String) (g : String) (fault : Option String) : G :=
  if g ∈ gs then run g fault false addWhenPresent ⟨gs, [], none⟩
  else run g fault false addWhenAbsent ⟨gs, [], none⟩

/-- `supervisord.remove_process_group(g)` -/
def removeGroup (gs : List String) (g : String) (unstopped : Bool) (fault : Option String) : G :=
  run g fault unstopped removeSteps ⟨gs, [], none⟩

/-! ### the groups' own subscriptions

  A group object is *live* from the moment `config.make_group()` has made it until its `before_remove()` has run.  For a
  listener pool that is exactly the time during which it is subscribed to its event types and to `EventRejectedEvent`
  (`EventListenerPool.__init__` subscribes, `before_remove` = `_unsubscribe`); for the other group kinds `before_remove`
  does nothing.  `GX` runs the same statement lists and records, next to the table, the live groups. -/

structure GX where
  g : G
  live : List String            -- groups made and not yet `before_remove`d, in order
deriving DecidableEq, Repr

def stepX (grp : String) (fault : Option String) (unstopped : Bool) (s : GX) (st : Step) : GX :=
  if s.g.res.isSome then s else
  match st with
  | .call f =>
    if fault = some f then { s with g := step grp fault unstopped s.g st }
    else if f = "before_remove" then { g := step grp fault unstopped s.g st, live := s.live.filter (· ≠ grp) }
    else { s with g := step grp fault unstopped s.g st }
  | .insertMade f =>
    if fault = some f then { s with g := step grp fault unstopped s.g st }
    else { g := step grp fault unstopped s.g st, live := if grp ∈ s.live then s.live else s.live ++ [grp] }
  | _ => { s with g := step grp fault unstopped s.g st }

def runX (grp : String) (fault : Option String) (unstopped : Bool) (steps : List Step) (s : GX) : GX :=
  steps.foldl (stepX grp fault unstopped) s

def addGroupX (gs live : List String) (g : String) (fault : Option String) : GX :=
  if g ∈ gs then runX g fault false addWhenPresent ⟨⟨gs, [], none⟩, live⟩
  else runX g fault false addWhenAbsent ⟨⟨gs, [], none⟩, live⟩

def removeGroupX (gs live : List String) (g : String) (unstopped : Bool) (fault : Option String) : GX :=
  runX g fault unstopped removeSteps ⟨⟨gs, [], none⟩, live⟩

/-! the RPC methods `addProcessGroup` / `removeProcessGroup` around them (supervisor/rpcinterface.py): what is answered.
    Which exception classes the method catches around the Supervisor call and which fault it answers for each, and the
    fault for a false result, are the regenerated tables `rpcAddCaught`, `rpcAddFalse`, `rpcRemoveCaught`, `rpcRemoveFalse`. -/
inductive Answer
  | ok                        -- the method returns True
  | fault (code : Int)        -- RPCError with this fault code
  | escaped (what : String)   -- the exception is not caught by the method
deriving DecidableEq, Repr

/-- `mro`: the class of the exception raised inside the Supervisor method (if one is) with its base classes; as in
    Python, the first handler naming a class the exception is an instance of takes it -/
def answerOf (caught : List (String × Int)) (falseCode : Int) (mro : List String) : Option Res → Answer
  | some (.ret true) => .ok
  | some (.ret false) => .fault falseCode
  | none => .fault falseCode
  | some (.raised w) =>
    match caught.find? (fun h => h.1 ∈ mro) with
    | some h => .fault h.2
    | none => .escaped w

/-- `rpcinterface.addProcessGroup(g)` for a configured name -/
def rpcAdd (gs : List String) (g : String) (fault : Option String) (cls : List String) : G × Answer :=
  (addGroup gs g fault, answerOf rpcAddCaught rpcAddFalse cls (addGroup gs g fault).res)

/-- `rpcinterface.removeProcessGroup(g)` for a name in the table -/
def rpcRemove (gs : List String) (g : String) (unstopped : Bool) (fault : Option String) (cls : List String) : G × Answer :=
  (removeGroup gs g unstopped fault, answerOf rpcRemoveCaught rpcRemoveFalse cls (removeGroup gs g unstopped fault).res)

inductive Op
  | add (g : String) (fault : Option String)
  | remove (g : String) (unstopped : Bool) (fault : Option String)
deriving DecidableEq, Repr

def applyOp (gs : List String) : Op → G
  | .add g f => addGroup gs g f
  | .remove g u f => removeGroup gs g u f

/-- a history of operations: the final table and all notifications, in order -/
def runHist : List String → List Op → List String × List Note
  | gs, [] => (gs, [])
  | gs, op :: r =>
    let x := applyOp gs op
    let y := runHist x.groups r
    (y.1, x.notes ++ y.2)

/-- what a subscriber that started from `view` believes after the notifications -/
def believe : List String → List Note → List String
  | view, [] => view
  | view, n :: r =>
    believe (if n.cls = "ProcessGroupAddedEvent" then (if n.group ∈ view then view else view ++ [n.group])
             else if n.cls = "ProcessGroupRemovedEvent" then view.filter (· ≠ n.group)
             else view) r

/-! ### Subprocess.finish -/

/-- a notification raised while a child is being reaped, with the pid it carries -/
inductive FNote
  | plog (pid : Int) (stdoutCls : Bool) (d : Bytes)    -- PROCESS_LOG_STDOUT / _STDERR
  | comm (pid : Int) (d : Bytes)                       -- PROCESS_COMMUNICATION
  | state (pid : Int)                                  -- the PROCESS_STATE notification of the exit
deriving DecidableEq, Repr

/-- the dispatcher creates its events with `self.process.pid` (Gen.Notify.outputEventSites) -/
def stamp (pid : Int) : OutDisp.Out → Option FNote
  | .plog ch d => some (.plog pid ch d)
  | .comm d => some (.comm pid d)
  | _ => none

structure FS where
  pid : Int
  disp : Option OutDisp.S       -- the process's output dispatcher; none = discarded
  notes : List FNote := []

def withDisp (f : OutDisp.S → OutDisp.S) (s : FS) : FS :=
  match s.disp with
  | none => s
  | some d =>
    { s with disp := some (f { d with outs := [] }),
             notes := s.notes ++ (f { d with outs := [] }).outs.filterMap (stamp s.pid) }

/-- `drain()` for one output dispatcher: `if dispatcher.readable(): dispatcher.handle_read_event()`;
    `pending` is what the read returns (empty = end of file / nothing there) -/
def drainD (c : OutDisp.Cfg) (pending : Bytes) (d : OutDisp.S) : OutDisp.S :=
  if d.p.closed then d else OutDisp.readEventDirect c pending d

/-- `dispatcher.record_output(eof=True)` -/
def flushD (c : OutDisp.Cfg) (d : OutDisp.S) : OutDisp.S :=
  OutDisp.recordDirect c true (d.p.buf.length + 1) d

/-- `announce`: the exit is a state change that has a notification (not the UNKNOWN branch) -/
def fstep (c : OutDisp.Cfg) (pending : Bytes) (announce : Bool) (s : FS) : FStep → FS
  | .drain => withDisp (drainD c pending) s
  | .flush => withDisp (flushD c) s
  | .stateChange => if announce then { s with notes := s.notes ++ [.state s.pid] } else s
  | .pidReset => { s with pid := 0 }
  | .dropDispatchers => { s with disp := none }
  | .closePipes => s
  | .other _ => s

def finish (c : OutDisp.Cfg) (pending : Bytes) (announce : Bool) (s : FS) : FS :=
  finishSteps.foldl (fstep c pending announce) s

/-! ### Subprocess.change_state -/

structure PS where
  state : Int
  backoff : Int
  pid : Int
deriving DecidableEq, Repr

/-- a PROCESS_STATE notification: the values its payload is rendered from when it is created -/
structure CEv where
  frm : Int
  to : Int
  tries : Int
  pid : Int
  expected : Bool
deriving DecidableEq, Repr

structure CS where
  p : PS
  old : Int := 0
  ev : Option CEv := none
  notes : List CEv := []
  done : Bool := false
deriving DecidableEq, Repr

/-- `hasClass`: `event_map` has an event class for the new state; `backoffCode` = ProcessStates.BACKOFF -/
def cstep (new : Int) (expected hasClass : Bool) (backoffCode : Int) (s : CS) (st : CStep) : CS :=
  if s.done then s else
  match st with
  | .readOld => { s with old := s.p.state }
  | .retIfSame => if new = s.old then { s with done := true } else s
  | .setState => { s with p := { s.p with state := new } }
  | .bumpBackoffIfBackoff => if new = backoffCode then { s with p := { s.p with backoff := s.p.backoff + 1 } } else s
  | .makeEvent => if hasClass then { s with ev := some ⟨s.old, new, s.p.backoff, s.p.pid, expected⟩ } else s
  | .notify => match s.ev with
    | some e => { s with notes := s.notes ++ [e] }
    | none => s

def changeState (p : PS) (new : Int) (expected hasClass : Bool) (backoffCode : Int) : CS :=
  changeStateSteps.foldl (cstep new expected hasClass backoffCode) { p := p }

/-! ### line protocol -/

def showRes : Option Res → String
  | some (.ret true) => "true"
  | some (.ret false) => "false"
  | some (.raised w) => "raised:" ++ w
  | none => "none"

def showNote (n : Note) : String := s!"{n.cls}:{n.group}:{if n.present then 1 else 0}"

def commaOr (xs : List String) : String := if xs.isEmpty then "-" else ",".intercalate xs

def faultOf (s : String) : Option String := if s = "-" then none else some s

def showAnswer : Answer → String
  | .ok => "true"
  | .fault c => s!"fault:{c}"
  | .escaped w => "raised:" ++ w

/-- (the table and the notifications of `addGroupX` / `removeGroupX` are those of `addGroup` / `removeGroup`: Props/C11 `runX_g`)
    `case groups`: ops `add <g> <fault|->`, `remove <g> <unstopped 0|1> <fault|->` (the Supervisor methods) and
    `rpcadd <g> <fault|-> <Class/Base/...|->`, `rpcremove <g> <0|1> <fault|-> <Class/Base/...|->` (the RPC methods; the exception's class with its bases),
    from an empty table -/
def runGroups (_cfg : List String) (ops : List String) : List String :=
  let rec go (gs live : List String) : List String → List String
    | [] => []
    | l :: r =>
      let x : Option (GX × String) := match words l with
        | ["add", g, f] => some (addGroupX gs live g (faultOf f), showRes (addGroup gs g (faultOf f)).res)
        | ["remove", g, "0", f] => some (removeGroupX gs live g false (faultOf f), showRes (removeGroup gs g false (faultOf f)).res)
        | ["remove", g, "1", f] => some (removeGroupX gs live g true (faultOf f), showRes (removeGroup gs g true (faultOf f)).res)
        | ["rpcadd", g, f, c] => some (addGroupX gs live g (faultOf f), showAnswer (rpcAdd gs g (faultOf f) (c.splitOn "/")).2)
        | ["rpcremove", g, "0", f, c] => some (removeGroupX gs live g false (faultOf f), showAnswer (rpcRemove gs g false (faultOf f) (c.splitOn "/")).2)
        | ["rpcremove", g, "1", f, c] => some (removeGroupX gs live g true (faultOf f), showAnswer (rpcRemove gs g true (faultOf f) (c.splitOn "/")).2)
        | _ => none
      match x with
      | none => "bad-op" :: go gs live r
      | some (x, res) =>
        s!"res={res} | notes={commaOr (x.g.notes.map showNote)} | groups={commaOr x.g.groups} | live={commaOr x.live}" :: go x.g.groups x.live r
  go [] [] ops

def showFNote : FNote → String
  | .plog pid ch d => s!"plog:{if ch then "o" else "e"}:{pid}:{hexOfBytes d}"
  | .comm pid d => s!"comm:{pid}:{hexOfBytes d}"
  | .state pid => s!"state:{pid}"

/-- `case finish <outdisp cfg> pid=<n>`: ops `read <hex>` (a main-loop read while the child lives) and
    `finish <pending hex> <announce 0|1>` -/
def runFinish (cfg : List String) (ops : List String) : List String :=
  match OutDisp.parseCfg cfg, kvInt cfg "pid" with
  | some c, some pid =>
    let rec go (s : FS) : List String → List String
      | [] => []
      | l :: r =>
        let x : Option FS := match words l with
          | ["read", h] => (bytesOfHex h).map fun b => withDisp (drainD c b) { s with notes := [] }
          | ["finish", h, "0"] => (bytesOfHex h).map fun b => finish c b false { s with notes := [] }
          | ["finish", h, "1"] => (bytesOfHex h).map fun b => finish c b true { s with notes := [] }
          | _ => none
        match x with
        | none => "bad-op" :: go s r
        | some x => s!"{commaOr (x.notes.map showFNote)} | pid={x.pid} disp={if x.disp.isSome then 1 else 0}" :: go x r
    go ⟨pid, some OutDisp.init, []⟩ ops
  | _, _ => ops.map fun _ => "bad-config"

def showCEv (e : CEv) : String := s!"{e.frm}:{e.to}:{e.tries}:{e.pid}:{if e.expected then 1 else 0}"

/-- `case change backoffcode=<n>`: op `change state=<n> backoff=<n> pid=<n> new=<n> expected=<0|1> hasclass=<0|1>` -/
def runChange (cfg : List String) (ops : List String) : List String :=
  match kvInt cfg "backoffcode" with
  | none => ops.map fun _ => "bad-config"
  | some bc => ops.map fun l =>
    let a := words l
    match a.head?, kvInt a "state", kvInt a "backoff", kvInt a "pid", kvInt a "new", kvBool a "expected", kvBool a "hasclass" with
    | some "change", some st, some bo, some pid, some new, some ex, some hc =>
      let r := changeState ⟨st, bo, pid⟩ new ex hc bc
      s!"notes={commaOr (r.notes.map showCEv)} | state={r.p.state} backoff={r.p.backoff}"
    | _, _, _, _, _, _, _ => "bad-op"

end Sv.Notify
