import Lean
/-
  `#audit Ns₁ Ns₂ …` prints, for every theorem whose name lies under one of the given
  namespaces, one JSON line {"theorem": …, "axioms": […]} (Lean.collectAxioms).  The check
  counts obligations/discharged from this output and rejects anything outside
  {propext, Classical.choice, Quot.sound}.
-/
open Lean Elab Command

elab "#audit " ns:ident+ : command => do
  let env ← getEnv
  let prefixes := ns.map (·.getId)
  let mut out : Array String := #[]
  for (n, ci) in env.constants.toList do
    if let .thmInfo _ := ci then
      if prefixes.any (fun p => p.isPrefixOf n) && !n.isInternalDetail then
        let axs ← liftCoreM <| Lean.collectAxioms n
        let axl := ", ".intercalate (axs.toList.map (fun a => s!"\"{a}\""))
        out := out.push s!"AUDIT \{\"theorem\": \"{n}\", \"axioms\": [{axl}]}"
  for l in out.qsort (· < ·) do
    IO.println l
