import SupervisorModel.Lemmas.Reread
import SupervisorModel.Model.UpdateLoop
/-
  C15 — reread reports exactly the difference, update converges to the file.
  Property theorems over Model/Reread.lean; the compared attribute lists and class facts (`Sv.Gen.Reread.*`)
  are regenerated from /repo on each run.
-/
set_option linter.unusedSimpArgs false
set_option maxRecDepth 4000
namespace Sv.Props.C15
open Sv Sv.Config Sv.Reread Sv.Gen.Reread

/-- "equal, or either side is AUTO" -/
def sameOrAuto (a b : LogFile) : Prop := a = .auto ∨ b = .auto ∨ a = b

theorem lfEq_iff (a b : LogFile) : lfEq a b = true ↔ sameOrAuto a b := by
  simp only [lfEq, pconfigEqAutomaticWildcard, Bool.true_and, Bool.or_eq_true, beq_iff_eq, sameOrAuto]
  constructor
  · rintro ((h | h) | h)
    · exact Or.inl h
    · exact Or.inr (Or.inl h)
    · exact Or.inr (Or.inr h)
  · rintro (h | h | h)
    · exact Or.inl (Or.inl h)
    · exact Or.inl (Or.inr h)
    · exact Or.inr h

/-- **eq_characterised.**  Two process configurations compare equal exactly when *every* option agrees, a log
    file set to AUTO matching any file name (so a difference in any option is noticed).  The list of compared
    attributes is the generated `pconfigEqAttrs`; dropping one from ProcessConfig breaks this proof. -/
theorem eq_characterised (a b : PConfig) :
    pconfigEq a b = true ↔
      a.name = b.name ∧ a.uid = b.uid ∧ a.command = b.command ∧ a.directory = b.directory ∧ a.umask = b.umask ∧
      a.priority = b.priority ∧ a.autostart = b.autostart ∧ a.autorestart = b.autorestart ∧ a.startsecs = b.startsecs ∧
      a.startretries = b.startretries ∧ sameOrAuto a.stdout_logfile b.stdout_logfile ∧
      a.stdout_capture_maxbytes = b.stdout_capture_maxbytes ∧ a.stdout_events_enabled = b.stdout_events_enabled ∧
      a.stdout_syslog = b.stdout_syslog ∧ a.stdout_logfile_backups = b.stdout_logfile_backups ∧
      a.stdout_logfile_maxbytes = b.stdout_logfile_maxbytes ∧ sameOrAuto a.stderr_logfile b.stderr_logfile ∧
      a.stderr_capture_maxbytes = b.stderr_capture_maxbytes ∧ a.stderr_logfile_backups = b.stderr_logfile_backups ∧
      a.stderr_logfile_maxbytes = b.stderr_logfile_maxbytes ∧ a.stderr_events_enabled = b.stderr_events_enabled ∧
      a.stderr_syslog = b.stderr_syslog ∧ a.stopsignal = b.stopsignal ∧ a.stopwaitsecs = b.stopwaitsecs ∧
      a.stopasgroup = b.stopasgroup ∧ a.killasgroup = b.killasgroup ∧ a.exitcodes = b.exitcodes ∧
      a.redirect_stderr = b.redirect_stderr ∧ dictEq a.environment b.environment = true ∧ a.serverurl = b.serverurl := by
  simp only [pconfigEq, pconfigEqAttrs, List.all_cons, List.all_nil, Bool.and_true, Bool.and_eq_true]
  simp [attrEq, lfEq_iff]

theorem dictEq_refl (e : KV) : dictEq e e = true := by simp [dictEq]

/-- **eq_refl.**  A configuration equals itself: an unchanged file reports nothing. -/
theorem pconfigEq_refl (a : PConfig) : pconfigEq a a = true := by
  rw [eq_characterised]
  simp [sameOrAuto, dictEq_refl]

theorem plistEq_refl (l : List PConfig) : plistEq l l = true := by
  induction l with
  | nil => rfl
  | cons a as ih => simp [plistEq, pconfigEq_refl, ih]

theorem eq_refl (g : GConfig) : gconfigEq g g = true := by
  cases hk : g.kind <;>
    simp [gconfigEq, hk, groupEq, isInstance, gkindClass, eqBaseClass, classBases, groupEqAttrs, poolEqAttrs, fcgiEqAttrs,
      gAttrEq, plistEq_refl, fcgiEqDelegatesToGroup, List.lookup, socketEq, socketEqAttrs, sAttrEq]

theorem ne_self (g : GConfig) : gconfigNe g g = false := by
  simp [gconfigNe, gconfigEqOp, eq_refl]

/-! ### group-level equality, attribute by attribute

  Which attributes ProcessGroupConfig / EventListenerPoolConfig / FastCGIGroupConfig / SocketConfig `__eq__` compare, and
  how, is regenerated from options.py / datatypes.py (`groupEqAttrs`, `poolEqAttrs`, `fcgiEqAttrs`, `socketEqAttrs`,
  `eqCompares`, `eqUnrecognised`).  An attribute dropped from a comparison, compared with itself, compared one-sidedly
  by a hand-written loop, or an extra early return breaks one of the theorems below. -/

/-- every statement of the four group-level `__eq__` methods has a shape the model follows -/
theorem eq_shape_understood : eqUnrecognised.all (fun c => c.2.isEmpty) = true := by decide

/-- every comparison inside them pairs `self.<attr>` with `other.<attr>` through `==` / `!=` -/
theorem eq_compares_paired :
    eqCompares.all (fun c => c.2.all fun t => t.2.2 == "other." ++ t.1 && (t.2.1 == "==" || t.2.1 == "!=")) = true := by decide

/-- `process_configs` lists compare equal exactly when they have the same length and the processes compare equal pairwise
    (each pair as characterised by `eq_characterised`) -/
theorem plistEq_iff (l m : List PConfig) :
    plistEq l m = true ↔ l.length = m.length ∧ ∀ p ∈ l.zip m, pconfigEq p.1 p.2 = true := by
  induction l generalizing m with
  | nil => cases m <;> simp [plistEq]
  | cons a as ih => cases m with
    | nil => simp [plistEq]
    | cons b bs => simp [plistEq, ih, and_assoc, and_left_comm]

/-- SocketConfig.__eq__: url, backlog, mode and owner all agree -/
theorem socket_eq_characterised (a b : GConfig) :
    socketEq a b = true ↔
      a.socket = b.socket ∧ a.socket_backlog = b.socket_backlog ∧ a.socket_mode = b.socket_mode ∧ a.socket_owner = b.socket_owner := by
  simp [socketEq, socketEqAttrs, sAttrEq, and_assoc] <;> grind

/-- **group_eq_characterised.**  `[group:x]` / `[program:x]` groups: equal exactly when the other side is a
    ProcessGroupConfig (or subclass) and name, priority and every process agree. -/
theorem group_eq_characterised (a b : GConfig) (ha : a.kind = .group) :
    gconfigEq a b = true ↔
      (b.kind = .group ∨ b.kind = .fcgi) ∧ a.name = b.name ∧ a.priority = b.priority ∧ plistEq a.procs b.procs = true := by
  cases hb : b.kind <;>
    simp [gconfigEq, ha, hb, groupEq, isInstance, gkindClass, eqBaseClass, classBases, groupEqAttrs, gAttrEq, List.lookup, and_assoc] <;>
    grind     -- (only reached when options.py lists the comparisons in another order)

/-- **pool_eq_characterised.**  Event listener pools: equal exactly when the other side is a pool too and name, priority,
    every process, the buffer size, the subscribed event types and the result handler agree. -/
theorem pool_eq_characterised (a b : GConfig) (ha : a.kind = .pool) :
    gconfigEq a b = true ↔
      b.kind = .pool ∧ a.name = b.name ∧ a.priority = b.priority ∧ plistEq a.procs b.procs = true ∧
      a.buffer_size = b.buffer_size ∧ a.pool_events = b.pool_events ∧ a.result_handler = b.result_handler := by
  cases hb : b.kind <;>
    simp [gconfigEq, ha, hb, isInstance, gkindClass, eqBaseClass, classBases, poolEqAttrs, gAttrEq, List.lookup, and_assoc] <;>
    grind     -- (only reached when options.py lists the comparisons in another order)

/-- **fcgi_eq_characterised.**  FastCGI groups: equal exactly when the other side is a FastCGI group too, the socket
    (url, backlog, mode, owner) agrees, and name, priority and every process agree. -/
theorem fcgi_eq_characterised (a b : GConfig) (ha : a.kind = .fcgi) :
    gconfigEq a b = true ↔
      b.kind = .fcgi ∧ (a.socket = b.socket ∧ a.socket_backlog = b.socket_backlog ∧ a.socket_mode = b.socket_mode ∧
        a.socket_owner = b.socket_owner) ∧ a.name = b.name ∧ a.priority = b.priority ∧ plistEq a.procs b.procs = true := by
  cases hb : b.kind <;>
    simp [gconfigEq, ha, hb, groupEq, isInstance, gkindClass, eqBaseClass, classBases, groupEqAttrs, fcgiEqAttrs, gAttrEq,
      fcgiEqDelegatesToGroup, socket_eq_characterised, List.lookup, and_assoc] <;>
    grind     -- (only reached when options.py / datatypes.py list the comparisons in another order)

/-- what "nothing of the group's own options differs" means, per kind -/
def sameGroupOptions (a b : GConfig) : Prop :=
  a.kind = b.kind ∧ a.name = b.name ∧ a.priority = b.priority ∧ plistEq a.procs b.procs = true ∧
  (a.kind = .pool → a.buffer_size = b.buffer_size ∧ a.pool_events = b.pool_events ∧ a.result_handler = b.result_handler) ∧
  (a.kind = .fcgi → a.socket = b.socket ∧ a.socket_backlog = b.socket_backlog ∧ a.socket_mode = b.socket_mode ∧
    a.socket_owner = b.socket_owner)

/-- **ne_characterised.**  `new != active` (Python's operator, with the subclass priority between ProcessGroupConfig
    and FastCGIGroupConfig) is False exactly when the two are of the same kind and *no* option differs: every
    difference in the group's priority, processes, buffer size, event subscriptions, result handler or socket options
    makes the group "changed". -/
theorem ne_characterised (a b : GConfig) : gconfigNe a b = false ↔ sameGroupOptions a b := by
  unfold sameGroupOptions
  cases ha : a.kind <;> cases hb : b.kind <;>
    simp [gconfigNe, gconfigEqOp, ha, hb, isInstance, gkindClass, classBases, List.lookup,
      group_eq_characterised, pool_eq_characterised, fcgi_eq_characterised]
  -- (mixed kinds are all rejected by the isinstance guards; what remains is fcgi against fcgi, up to the order of the conjuncts)
  constructor
  · rintro ⟨⟨h1, h2, h3, h4⟩, h5, h6, h7⟩; exact ⟨h5, h6, h7, h1, h2, h3, h4⟩
  · rintro ⟨h5, h6, h7, h1, h2, h3, h4⟩; exact ⟨⟨h1, h2, h3, h4⟩, h5, h6, h7⟩

/-! ### diff_to_active -/

/-- **diff_exact.**  added = the file's groups whose name is not active; removed = the active groups whose name is
    not in the file; changed = the file's groups that are active under the same name with a configuration that
    does not compare equal (`gconfigNe`, i.e. Python's `!=` with its subclass priority); the three are pairwise
    disjoint by name. -/
theorem diff_exact (new cur : List GConfig) :
    (∀ g, g ∈ (diffToActive new cur).added ↔ g ∈ new ∧ lastNamed cur g.name = none) ∧
    (∀ g, g ∈ (diffToActive new cur).removed ↔ g ∈ cur ∧ lastNamed new g.name = none) ∧
    (∀ g, g ∈ (diffToActive new cur).changed ↔ g ∈ new ∧ ∃ c, lastNamed cur g.name = some c ∧ gconfigNe g c = true) ∧
    (∀ g, g ∈ (diffToActive new cur).added → g ∉ (diffToActive new cur).changed) := by
  have hch : ∀ g, g ∈ (diffToActive new cur).changed ↔ g ∈ new ∧ ∃ c, lastNamed cur g.name = some c ∧ gconfigNe g c = true := by
    intro g
    simp only [diffToActive, List.mem_filter]
    constructor
    · rintro ⟨hm, hne⟩
      cases hl : lastNamed cur g.name with
      | none => rw [hl] at hne; simp [ne_self] at hne
      | some c => rw [hl] at hne; exact ⟨hm, c, rfl, by simpa using hne⟩
    · rintro ⟨hm, c, hl, hne⟩
      exact ⟨hm, by rw [hl]; simpa using hne⟩
  refine ⟨?_, ?_, hch, ?_⟩
  · intro g; simp [diffToActive, List.mem_filter]
  · intro g; simp [diffToActive, List.mem_filter]
  · intro g ha hc
    have h1 : lastNamed cur g.name = none := by
      have := ha; simp [diffToActive, List.mem_filter] at this; exact this.2
    obtain ⟨_, c, h2, _⟩ := (hch g).mp hc
    rw [h1] at h2; cases h2

/-- **changed_exact.**  reread lists a group of the file as changed exactly when a group of that name is active and
    some option of the two differs (`sameGroupOptions` fails). -/
theorem changed_exact (new cur : List GConfig) (g : GConfig) :
    g ∈ (diffToActive new cur).changed ↔ g ∈ new ∧ ∃ c, lastNamed cur g.name = some c ∧ ¬ sameGroupOptions g c := by
  rw [(diff_exact new cur).2.2.1 g]
  constructor
  · rintro ⟨hm, c, hl, hne⟩
    refine ⟨hm, c, hl, ?_⟩
    intro hs
    rw [(ne_characterised g c).mpr hs] at hne
    cases hne
  · rintro ⟨hm, c, hl, hns⟩
    refine ⟨hm, c, hl, ?_⟩
    cases h : gconfigNe g c with
    | true => rfl
    | false => exact absurd ((ne_characterised g c).mp h) hns

/-- names found by `lastNamed` are names of the list -/
theorem lastNamed_some (l : List GConfig) (n : String) (c : GConfig) (h : lastNamed l n = some c) : c ∈ l ∧ c.name = n := by
  unfold lastNamed at h
  have := List.find?_some h
  have hm := List.mem_of_find?_eq_some h
  exact ⟨List.mem_reverse.mp hm, by simpa using this⟩

theorem lastNamed_none (l : List GConfig) (n : String) (h : lastNamed l n = none) : ∀ c ∈ l, c.name ≠ n := by
  unfold lastNamed at h
  intro c hc
  have := List.find?_eq_none.mp h c (List.mem_reverse.mpr hc)
  simpa using this

/-- removed groups are not in the file, added and changed ones are: "removed" is disjoint from both by name -/
theorem removed_disjoint (new cur : List GConfig) (r : GConfig) (hr : r ∈ (diffToActive new cur).removed) :
    ∀ g ∈ new, g.name ≠ r.name := by
  obtain ⟨_, h⟩ := ((diff_exact new cur).2.1 r).mp hr
  exact lastNamed_none new r.name h

/-! ### reread changes nothing; CANT_REREAD -/

/-- **reread_changes_nothing.**  reloadConfig never touches the active groups, their processes or pids. -/
theorem reread_changes_nothing (s : State) (parsed : Except String (List GConfig)) :
    (reloadConfig s parsed).2.active = s.active := by
  cases parsed <;> simp [reloadConfig]

/-- **reread_installs_file.**  After a successful reread the configuration that addProcessGroup / update will use
    is exactly the parsed file — not an earlier version that merely compares equal (AUTO matches any log file name
    under config equality, so "equal" lists can differ in an option). -/
theorem reread_installs_file (s : State) (new : List GConfig) :
    (reloadConfig s (.ok new)).2.file = new := by
  simp [reloadConfig, installParsed_eq]

/-- **cant_reread_leaves_state.**  A file that cannot be parsed is answered CANT_REREAD and leaves every active
    group and the configuration last read as they were. -/
theorem cant_reread_leaves_state (s : State) (e : String) :
    reloadConfig s (.error e) = (.error .cantReread, s) := rfl

/-- an unchanged file (group names unique, as the daemon's group table requires) reports nothing -/
theorem unchanged_reports_nothing (gs : List GConfig) (hu : ∀ g ∈ gs, lastNamed gs g.name = some g) :
    (diffToActive gs gs).changed = [] ∧ (diffToActive gs gs).added = [] ∧ (diffToActive gs gs).removed = [] := by
  refine ⟨?_, ?_, ?_⟩
  · rw [List.eq_nil_iff_forall_not_mem]
    intro g hg
    obtain ⟨hm, c, hl, hne⟩ := ((diff_exact gs gs).2.2.1 g).mp hg
    rw [hu g hm] at hl
    injection hl with hl
    subst hl
    rw [ne_self] at hne
    cases hne
  · rw [List.eq_nil_iff_forall_not_mem]
    intro g hg
    obtain ⟨hm, hl⟩ := ((diff_exact gs gs).1 g).mp hg
    rw [hu g hm] at hl; cases hl
  · rw [List.eq_nil_iff_forall_not_mem]
    intro g hg
    obtain ⟨hm, hl⟩ := ((diff_exact gs gs).2.1 g).mp hg
    rw [hu g hm] at hl; cases hl

/-! ### a file that cannot be parsed: whatever the reason, the answer is CANT_REREAD

  `cant_reread_leaves_state` above is about a parse that ended with a ValueError.  Every check of options.py raises
  ValueError itself; the class of a failing `s % expansions` is CPython's (KeyError / ValueError / TypeError) and is
  turned into a ValueError by the except clauses of `expand()` -- the GENERATED `expandHandlers`; which classes
  reloadConfig answers with CANT_REREAD is the GENERATED `reloadCatches`. -/

/-- **format_failure_is_value_error.**  Whatever `s % expansions` raises -- an unknown name, a malformed conversion, a
    numeric conversion without a mapping key or of a string (`command=/bin/date +%d`, `%(program_name)d`) -- what leaves
    `expand()` is a ValueError. -/
theorem format_failure_is_value_error : ∀ c ∈ formatRaises, expandRaises c = "ValueError" := by decide

/-- reloadConfig answers a ValueError, and its subclasses (the UnicodeDecodeError of a file that is not UTF-8), with
    CANT_REREAD and leaves the state as it was -/
theorem value_error_is_cant_reread (s : State) :
    rereadFailure s "ValueError" = (.fault .cantReread, s) ∧ rereadFailure s "UnicodeDecodeError" = (.fault .cantReread, s) := by
  constructor <;> simp [rereadFailure, reloadCatches, isSubclass, pyBases, List.find?, List.lookup]

/-- **unparsable_answered_cant_reread.**  For every way the parse of the model can fail (every error text `e`, in
    particular every failure of a %-expression whatever its class in CPython): reloadConfig answers CANT_REREAD and
    leaves every active group and the configuration last read as they were. -/
theorem unparsable_answered_cant_reread (s : State) (e : String) :
    rereadUnparsable s e = (.fault .cantReread, s) := by
  have hk : expandRaises "KeyError" = "ValueError" := format_failure_is_value_error _ (by decide)
  have hv : expandRaises "ValueError" = "ValueError" := format_failure_is_value_error _ (by decide)
  have ht : expandRaises "TypeError" = "ValueError" := format_failure_is_value_error _ (by decide)
  have hf : formatClass e = some "KeyError" ∨ formatClass e = some "TypeError" ∨ formatClass e = some "ValueError" ∨ formatClass e = none := by
    unfold formatClass
    split
    · exact Or.inl rfl
    · split
      · exact Or.inr (Or.inl rfl)
      · split
        · exact Or.inr (Or.inr (Or.inl rfl))
        · exact Or.inr (Or.inr (Or.inr rfl))
  have hc : parseFailureClass e = "ValueError" := by
    unfold parseFailureClass
    rcases hf with h | h | h | h <;> simp [h, hk, hv, ht]
  unfold rereadUnparsable
  rw [hc]
  exact (value_error_is_cant_reread s).1

/-- the two answers agree: the classed view of an unparsable file is `cant_reread_leaves_state` -/
theorem unparsable_is_cant_reread_leaves_state (s : State) (e : String) :
    (rereadUnparsable s e).2 = (reloadConfig s (.error e)).2 ∧ (reloadConfig s (.error e)).1 = .error .cantReread := by
  rw [unparsable_answered_cant_reread]; exact ⟨rfl, rfl⟩

-- the failures in question do occur: the unescaped strftime percent and the numeric conversion of a string are TypeErrors
example : Sv.Config.expand [("program_name", .s "stamp")] "/bin/date +%d" = .error "expand:unkeyed or unsupported format" := by decide +kernel
example : Sv.Config.expand [("program_name", .s "stamp")] "%(program_name)d" = .error "expand:%d of a string" := by decide +kernel
example : formatClass "expand:unkeyed or unsupported format" = some "TypeError" ∧ formatClass "expand:%d of a string" = some "TypeError"
    ∧ formatClass "expand:name cannot be expanded" = some "KeyError" ∧ formatClass "expand:incomplete format" = some "ValueError"
    ∧ formatClass "integer:invalid literal" = none := by decide +kernel
/-- why `expand()` must catch every class: with `except ValueError` in place of `except Exception` the TypeError of
    `+%d` leaves `expand()` as it is, and reloadConfig (which catches ValueError only) lets it escape -/
theorem narrowed_handler_lets_type_error_escape :
    throughHandlers [("KeyError", "ValueError"), ("ValueError", "ValueError")] "TypeError" = "TypeError" ∧
    (rereadFailure { file := [], active := [] } "TypeError").1 = .escapes "TypeError" := by decide +kernel

/-! ### the working directory

  supervisord reads its file for the first time in the directory it was launched in and, once daemonize() has changed to
  [supervisord] directory=, every later time from there.  `parseAt cwd` is the parse with every working-directory
  dependent function the code applies to a child log file name (GENERATED `childLogfileChain`). -/

/-- the functions that build group and process configurations call nothing that depends on the working directory
    (the fcgi socket path is normalised only after it has been checked to be absolute) -/
theorem config_builders_cwd_free :
    cwdCalls.all (fun fc => fc.2.isEmpty || (fc.1 == "parse_fcgi_socket" && fcgiSocketPathMustBeAbsolute)) = true := by decide

theorem lfAt_id (cwd : String) (l : LogFile) : lfAt cwd l = l := by
  cases l <;> simp [lfAt, childLogfileChain, cwdSensitive]

theorem gconfigAt_id (cwd : String) (g : GConfig) : gconfigAt cwd g = g := by
  have hp : pconfigAt cwd = id := by funext p; simp [pconfigAt, lfAt_id]
  simp [gconfigAt, hp]

/-- **parse_independent_of_cwd.**  The parsed value of every option is a function of the file (text, environment,
    %(here)s) only: the same file read in two working directories gives the same outcome. -/
theorem parse_independent_of_cwd (cwd₁ cwd₂ : String) (ini : Ini) : parseAt cwd₁ ini = parseAt cwd₂ ini := by
  have h : ∀ cwd, parseAt cwd ini = (readConfig ini).map (·.groups) := by
    intro cwd
    have hg : (fun r : Result => r.groups.map (gconfigAt cwd)) = fun r => r.groups := by
      have hid : gconfigAt cwd = id := by funext g; exact gconfigAt_id cwd g
      funext r; simp [hid]
    simp [parseAt, hg]
  rw [h cwd₁, h cwd₂]

/-- **unchanged_file_reports_nothing_after_chdir.**  The daemon read the file in `launch`, changed its directory to `run`
    and reads the unchanged file again: nothing is reported (group names unique, as the group table requires). -/
theorem unchanged_file_reports_nothing_after_chdir (launch run : String) (ini : Ini) (old new : List GConfig)
    (h1 : parseAt launch ini = .ok old) (h2 : parseAt run ini = .ok new) (hu : ∀ g ∈ old, lastNamed old g.name = some g) :
    (diffToActive new old).changed = [] ∧ (diffToActive new old).added = [] ∧ (diffToActive new old).removed = [] := by
  rw [parse_independent_of_cwd run launch, h1] at h2
  injection h2 with h2
  subst h2
  exact unchanged_reports_nothing old hu

-- a relative child log file name stays what the file says, wherever the file is read
example : lfAt "/srv/run" (.path "web.log") = .path "web.log" := by decide +kernel
/-- why a child log file name must not go through normalize_path: made absolute at parse time, the same text gives two
    names in two working directories, and config equality compares them -/
theorem normalized_logfile_depends_on_cwd :
    absIn "/launch" "web.log" ≠ absIn "/srv/run" "web.log" ∧ absIn "/launch" "/var/log/web.log" = absIn "/srv/run" "/var/log/web.log" ∧
    lfEq (.path (absIn "/launch" "web.log")) (.path (absIn "/srv/run" "web.log")) = false := by decide +kernel

/-! ### supervisorctl update -/

def callGroup : Call → String
  | .stop g => g | .remove g => g | .add g => g

/-- **restricted_update.**  `update g1 g2 …` only ever stops, removes or adds the named groups (whatever the
    stops answer). -/
theorem restricted_update (valid fails added changed removed : List String) (hv : valid ≠ []) :
    ∀ c ∈ updateCalls valid fails added changed removed, callGroup c ∈ valid := by
  intro c hc
  have hsel : ∀ g, selected valid g = true → g ∈ valid := by
    intro g hg
    simp only [selected, Bool.or_eq_true, List.isEmpty_iff] at hg
    rcases hg with h | h
    · exact absurd h hv
    · exact List.contains_iff_mem.mp h
  simp only [updateCalls, List.mem_append, List.mem_flatMap, List.mem_filter, List.mem_map] at hc
  rcases hc with (⟨g, ⟨_, hs⟩, hm⟩ | ⟨g, ⟨_, hs⟩, hm⟩) | ⟨g, ⟨_, hs⟩, rfl⟩
  · split at hm
    · simp only [List.mem_cons, List.not_mem_nil, or_false] at hm
      subst hm; exact hsel g hs
    · simp only [List.mem_cons, List.not_mem_nil, or_false] at hm
      rcases hm with rfl | rfl <;> exact hsel g hs
  · split at hm
    · simp only [List.mem_cons, List.not_mem_nil, or_false] at hm
      subst hm; exact hsel g hs
    · simp only [List.mem_cons, List.not_mem_nil, or_false] at hm
      rcases hm with rfl | rfl | rfl <;> exact hsel g hs
  · exact hsel g hs

/-- the call sequence of an unrestricted update whose stops all succeed: removed groups are stopped then removed,
    changed groups are stopped, removed and added again, added groups are added — in that order, nothing else -/
theorem update_sequence (added changed removed : List String) :
    updateCalls [] [] added changed removed =
      (removed.flatMap fun g => [Call.stop g, Call.remove g]) ++
      (changed.flatMap fun g => [Call.stop g, Call.remove g, Call.add g]) ++ added.map Call.add := by
  have hf : ∀ l : List String, List.filter (selected []) l = l := by
    intro l; apply List.filter_eq_self.mpr; intro a _; simp [selected]
  simp [updateCalls, hf]

/-- a group whose stop reported a failure is never removed, and is re-added only if reread listed it as added
    (fix 4198a53: "has problems; not removing / not updating") -/
theorem failed_stop_keeps_group (valid fails added changed removed : List String) (g : String) (hg : g ∈ fails) :
    Call.remove g ∉ updateCalls valid fails added changed removed ∧
    (Call.add g ∈ updateCalls valid fails added changed removed → g ∈ added) := by
  have hc : fails.contains g = true := List.contains_iff_mem.mpr hg
  constructor
  · intro hm
    simp only [updateCalls, List.mem_append, List.mem_flatMap, List.mem_filter, List.mem_map] at hm
    rcases hm with (⟨x, _, hx⟩ | ⟨x, _, hx⟩) | ⟨x, _, hx⟩
    · split at hx
      · simp at hx
      · rename_i hnf
        simp only [List.mem_cons, List.not_mem_nil, or_false] at hx
        rcases hx with hx | hx
        · cases hx
        · injection hx with hx; subst hx; exact hnf hc
    · split at hx
      · simp at hx
      · rename_i hnf
        simp only [List.mem_cons, List.not_mem_nil, or_false] at hx
        rcases hx with hx | hx | hx
        · cases hx
        · injection hx with hx; subst hx; exact hnf hc
        · cases hx
    · cases hx
  · intro hm
    simp only [updateCalls, List.mem_append, List.mem_flatMap, List.mem_filter, List.mem_map] at hm
    rcases hm with (⟨x, _, hx⟩ | ⟨x, _, hx⟩) | ⟨x, ⟨hxa, _⟩, hx⟩
    · split at hx
      · simp at hx
      · simp only [List.mem_cons, List.not_mem_nil, or_false] at hx
        rcases hx with hx | hx <;> cases hx
    · split at hx
      · simp at hx
      · rename_i hnf
        simp only [List.mem_cons, List.not_mem_nil, or_false] at hx
        rcases hx with hx | hx | hx
        · cases hx
        · cases hx
        · injection hx with hx; subst hx; exact absurd hc hnf
    · injection hx with hx; subst hx; exact hxa

/-! ### convergence of update -/

/-- **update_converges.**  After an unrestricted `supervisorctl update` against a daemon in state `s` whose file now
    parses to `new` (every stop completes — `stopProcessGroup` of the model):
    1. the active groups are exactly the groups of the file;
    2. a group that reread did not report keeps its entry — configuration, processes and pids — untouched;
    3. a changed or added group is active with the file's configuration and fresh processes (no pid);
    4. a removed group is gone;
    5. the configuration last read is the file. -/
theorem update_converges (s : State) (new : List GConfig) :
    let d := diffToActive new (s.active.map (·.cfg))
    let R := d.removed.map (·.name)
    let C := d.changed.map (·.name)
    let D := d.added.map (·.name)
    let fin := doUpdate s new []
    (∀ n, (fin.find n).isSome = true ↔ inFile new n) ∧
    (∀ n, n ∉ R → n ∉ C → n ∉ D → fin.find n = s.find n) ∧
    (∀ n, n ∈ C ∨ n ∈ D → fin.find n = (fileCfg new n).map freshActive) ∧
    (∀ n, n ∈ R → fin.find n = none) ∧
    fin.file = new := by
  intro d R C D fin
  have key := fun n => (doUpdate_find s new n).1
  have hR := mem_removed_names s new
  have hD := mem_added_names s new
  have hC := mem_changed_names s new
  refine ⟨?_, ?_, ?_, ?_, (doUpdate_find s new "").2⟩
  · intro n
    show ((doUpdate s new []).find n).isSome = true ↔ _
    rw [key n]
    by_cases hf : inFile new n
    · simp only [hf, iff_true]
      have hFs : ∃ c, fileCfg new n = some c := by
        cases h : fileCfg new n with
        | none => exact absurd hf ((fileCfg_none_iff new n).mp h)
        | some c => exact ⟨c, rfl⟩
      obtain ⟨c, hc⟩ := hFs
      have hnR : ¬ n ∈ (diffToActive new (s.active.map (·.cfg))).removed.map (·.name) := fun h => ((hR n).mp h).2 hf
      by_cases hc' : n ∈ (diffToActive new (s.active.map (·.cfg))).changed.map (·.name)
      · simp [hc', F, hc]
      · simp only [hc', hnR, if_false]
        cases hs : s.find n with
        | some a => simp
        | none =>
          have : n ∈ (diffToActive new (s.active.map (·.cfg))).added.map (·.name) :=
            (hD n).mpr ⟨hf, (find_none_iff s n).mp hs⟩
          simp [this, F, hc]
    · simp only [hf, iff_false, Bool.not_eq_true]
      have hF : F new n = none := by simp [F, (fileCfg_none_iff new n).mpr hf]
      have hnC : ¬ n ∈ (diffToActive new (s.active.map (·.cfg))).changed.map (·.name) := fun h => hf (hC n h)
      simp only [hnC, if_false, hF]
      by_cases hr : n ∈ (diffToActive new (s.active.map (·.cfg))).removed.map (·.name)
      · simp [hr]
      · simp only [hr, if_false]
        cases hs : s.find n with
        | none => simp
        | some a =>
          exfalso
          apply hr
          exact (hR n).mpr ⟨(find_isSome_iff s n).mp (by simp [hs]), hf⟩
  · intro n h1 h2 h3
    show (doUpdate s new []).find n = _
    rw [key n]
    simp only [show ¬ n ∈ (diffToActive new (s.active.map (·.cfg))).changed.map (·.name) from h2,
      show ¬ n ∈ (diffToActive new (s.active.map (·.cfg))).removed.map (·.name) from h1,
      show ¬ n ∈ (diffToActive new (s.active.map (·.cfg))).added.map (·.name) from h3, if_false]
    cases s.find n <;> rfl
  · intro n h
    show (doUpdate s new []).find n = _
    rw [key n]
    by_cases hc : n ∈ (diffToActive new (s.active.map (·.cfg))).changed.map (·.name)
    · simp only [hc, if_true]
      have hFF : F new n = (fileCfg new n).map freshActive := rfl
      rw [hFF]
      cases (fileCfg new n).map freshActive with
      | some a => rfl
      | none => simp
    · have hd : n ∈ (diffToActive new (s.active.map (·.cfg))).added.map (·.name) := h.resolve_left hc
      obtain ⟨hf, hna⟩ := (hD n).mp hd
      have hnR : ¬ n ∈ (diffToActive new (s.active.map (·.cfg))).removed.map (·.name) := fun h => ((hR n).mp h).2 hf
      simp only [hc, hnR, if_false, (find_none_iff s n).mpr hna, hd, if_true]
      rfl
  · intro n h
    show (doUpdate s new []).find n = _
    rw [key n]
    obtain ⟨_, hnf⟩ := (hR n).mp h
    have hnC : ¬ n ∈ (diffToActive new (s.active.map (·.cfg))).changed.map (·.name) := fun h => hnf (hC n h)
    have hnD : ¬ n ∈ (diffToActive new (s.active.map (·.cfg))).added.map (·.name) := fun h => hnf ((hD n).mp h).1
    have hR' : n ∈ (diffToActive new (s.active.map (·.cfg))).removed.map (·.name) := h
    simp only [hnC, hR', hnD, if_false, if_true]

/-- fresh processes have no child: nothing of a changed group's old processes survives -/
theorem fresh_has_no_children (c : GConfig) : ∀ p ∈ (freshActive c).procs, p.pid = 0 ∧ p.stopped = true := by
  intro p hp
  simp only [freshActive, freshProcs, List.mem_map] at hp
  obtain ⟨q, _, rfl⟩ := hp
  exact ⟨rfl, rfl⟩

/-- a group is only ever removed with every process stopped (removeProcessGroup's precondition) -/
theorem remove_requires_stopped (s : State) (g : String) (s' : State) (h : removeProcessGroup s g = (.ok (), s')) :
    ∃ a, s.find g = some a ∧ ∀ p ∈ a.procs, p.stopped = true := by
  unfold removeProcessGroup at h
  cases hf : s.find g with
  | none => rw [hf] at h; simp at h
  | some a =>
    rw [hf] at h
    dsimp only at h
    by_cases hany : a.procs.any (fun p => !p.stopped) = true
    · rw [if_pos hany] at h; simp at h
    · refine ⟨a, rfl, ?_⟩
      intro p hp
      simp only [List.any_eq_true, not_exists, not_and, Bool.not_eq_true, Bool.not_eq_false'] at hany
      simpa using hany p hp


/-! ### non-vacuity of update_converges: one removed, one changed, one untouched, one added group -/

def exP (name cmd : String) : PConfig :=
  { kind := .process, name, command := cmd, directory := none, umask := none, priority := 999, autostart := true,
    autorestart := .unexpected, startsecs := 1, startretries := 3, uid := none, stdout_logfile := .auto,
    stdout_capture_maxbytes := 0, stdout_events_enabled := false, stdout_logfile_backups := 10,
    stdout_logfile_maxbytes := 52428800, stdout_syslog := false, stderr_logfile := .auto, stderr_capture_maxbytes := 0,
    stderr_events_enabled := false, stderr_logfile_backups := 10, stderr_logfile_maxbytes := 52428800,
    stderr_syslog := false, stopsignal := 15, stopwaitsecs := 10, stopasgroup := false, killasgroup := false,
    exitcodes := [0], redirect_stderr := false, environment := [], serverurl := none }
def exG (name cmd : String) : GConfig := { kind := .group, name, priority := 999, procs := [exP name cmd] }
def exRunning (g : GConfig) (pid : Nat) : Active := { cfg := g, procs := g.procs.map fun p => ⟨p.name, pid, false⟩ }
def exState : State :=
  { file := [exG "gone" "/bin/g", exG "chg" "/bin/old", exG "keep" "/bin/k"],
    active := [exRunning (exG "gone" "/bin/g") 11, exRunning (exG "chg" "/bin/old") 12, exRunning (exG "keep" "/bin/k") 13] }
def exNew : List GConfig := [exG "chg" "/bin/new", exG "keep" "/bin/k", exG "fresh" "/bin/f"]

example : (reloadConfig exState (.ok exNew)).1 = .ok (["fresh"], ["chg"], ["gone"]) := by decide +kernel
example : (doUpdate exState exNew []).active.map (fun a => (a.cfg.name, a.procs.map (·.pid)))
    = [("keep", [13]), ("chg", [0]), ("fresh", [0])] := by decide +kernel
example : (doUpdate exState exNew ["fresh"]).active.map (fun a => (a.cfg.name, a.procs.map (·.pid)))
    = [("gone", [11]), ("chg", [12]), ("keep", [13]), ("fresh", [0])] := by decide +kernel

/-! ### concrete instances of the group-level characterisations: one option differs, in either direction -/

def exPool (evs : List String) (buf : Int) (h : String) : GConfig :=
  { kind := .pool, name := "l", priority := 999, procs := [exP "l" "/bin/l"], buffer_size := buf, pool_events := evs, result_handler := h }
def exFcgi (url : String) (backlog mode : Option Int) : GConfig :=
  { kind := .fcgi, name := "f", priority := 999, procs := [exP "f" "/bin/f"], socket := url, socket_backlog := backlog, socket_mode := mode }

-- a subscription lost, gained, replaced; buffer size up, down; handler replaced
example : gconfigNe (exPool ["A"] 10 "h") (exPool ["A", "B"] 10 "h") = true := by decide +kernel
example : gconfigNe (exPool ["A", "B"] 10 "h") (exPool ["A"] 10 "h") = true := by decide +kernel
example : gconfigNe (exPool ["A", "C"] 10 "h") (exPool ["A", "B"] 10 "h") = true := by decide +kernel
example : gconfigNe (exPool ["A"] 11 "h") (exPool ["A"] 10 "h") = true := by decide +kernel
example : gconfigNe (exPool ["A"] 9 "h") (exPool ["A"] 10 "h") = true := by decide +kernel
example : gconfigNe (exPool ["A"] 10 "h2") (exPool ["A"] 10 "h") = true := by decide +kernel
example : gconfigNe (exPool ["A", "B"] 10 "h") (exPool ["A", "B"] 10 "h") = false := by decide +kernel
-- fcgi: backlog gained / lost / changed, mode changed, url changed; a plain program group of the same name
example : gconfigNe (exFcgi "tcp://h:1" (some 5) none) (exFcgi "tcp://h:1" none none) = true := by decide +kernel
example : gconfigNe (exFcgi "tcp://h:1" none none) (exFcgi "tcp://h:1" (some 5) none) = true := by decide +kernel
example : gconfigNe (exFcgi "tcp://h:1" (some 5) none) (exFcgi "tcp://h:1" (some 6) none) = true := by decide +kernel
example : gconfigNe (exFcgi "unix:///s" none (some 448)) (exFcgi "unix:///s" none (some 511)) = true := by decide +kernel
example : gconfigNe (exFcgi "tcp://h:1" none none) (exFcgi "tcp://h:2" none none) = true := by decide +kernel
example : gconfigNe (exFcgi "tcp://h:1" none none) { exG "f" "/bin/f" with } = true := by decide +kernel
example : gconfigNe { exG "f" "/bin/f" with } (exFcgi "tcp://h:1" none none) = true := by decide +kernel
example : sameGroupOptions (exPool ["A", "B"] 10 "h") (exPool ["A", "B"] 10 "h") := (ne_characterised _ _).mp (by decide +kernel)


/-! ## a group removed (or replaced) by a request of the running pass is not transitioned

  runforever takes the list of groups at the top of a pass, dispatches the requests that arrived (removeProcessGroup /
  addProcessGroup of `supervisorctl update`), then calls transition() on the groups of that list.  A removed group's
  member that is EXITED with a restart pending would be forked there -- a child of a group that is no longer in the
  process table.  The guard in front of transition() and ProcessGroupBase.__eq__ are the generated
  `loopTransitionGuard`, `processGroupEqAttrs`.  (Model/UpdateLoop.lean) -/
section loop
open Sv.UpdateLoop

/-- **removed_group_not_transitioned.**  For every list taken at the top of a pass and every table left by the
    dispatch phase: a group object whose transition() runs is (the same object as) a group of the table.  So nothing
    is transitioned, hence nothing forked, on behalf of a group object that a request of this pass removed --
    whatever its name and priority and whatever else is in the table. -/
theorem removed_group_not_transitioned (snapshot after : List Group) (g : Group)
    (hg : g ∈ transitioned snapshot after) : ∃ t ∈ after, t.oid = g.oid := by
  simp only [transitioned, transitionedWith, loopTransitionGuard, loopIteratesSnapshot, guardPasses, isIn,
    List.mem_filter, List.any_eq_true, beq_iff_eq, if_true] at hg
  exact hg.2

/-- the same, read the other way round: an object that is not in the table after the dispatch phase is skipped -/
theorem not_in_table_not_transitioned (snapshot after : List Group) (g : Group)
    (hout : ∀ t ∈ after, t.oid ≠ g.oid) : g ∉ transitioned snapshot after := by
  intro hg
  obtain ⟨t, ht, he⟩ := removed_group_not_transitioned snapshot after g hg
  exact hout t ht he

/-- **nothing_forked_for_removed_group.**  One whole pass, any table, any requests: every group for which a child is
    forked in the transition phase is an object of the table as the requests left it. -/
theorem nothing_forked_for_removed_group (tbl : List Group) (reqs : List Req) (g : Group)
    (hg : g ∈ (pass tbl reqs).forkedFor) : ∃ t ∈ (pass tbl reqs).table, t.oid = g.oid := by
  simp only [pass, List.mem_filter] at hg
  exact removed_group_not_transitioned tbl (dispatch tbl reqs) g hg.1

theorem guardPasses_of_mem (k : GuardKind) (g : Group) (tbl : List Group) (h : g ∈ tbl) : guardPasses k g tbl = true := by
  cases k
  · simp only [guardPasses, isIn, List.any_eq_true, beq_iff_eq]; exact ⟨g, h, rfl⟩
  · simp only [guardPasses, pyIn, List.any_eq_true, Bool.or_eq_true, beq_iff_eq]; exact ⟨g, h, Or.inl rfl⟩
  · rfl

/-- **active_group_still_transitioned.**  The guard does not starve anybody: a group of the list that is still in the
    table is transitioned (whichever of the known guards is coded). -/
theorem active_group_still_transitioned (snapshot after : List Group) (g : Group)
    (hs : g ∈ snapshot) (ha : g ∈ after) : g ∈ transitioned snapshot after := by
  simp only [transitioned, transitionedWith, loopIteratesSnapshot, List.mem_filter, if_true]
  exact ⟨hs, guardPasses_of_mem _ g after ha⟩

def exJob : Group := { oid := 1, name := "job", priority := 999, restartPending := true }
def exOther : Group := { oid := 2, name := "other", priority := 999, restartPending := false }
def exJob' : Group := { oid := 3, name := "job", priority := 999, restartPending := true }

/-- the hypotheses are satisfiable: `update` removes group job (a member is EXITED, restart pending) while group other,
    of the same priority, stays: only other is transitioned, nothing is forked -/
example : (pass [exJob, exOther] [.remove "job"]).table = [exOther]
    ∧ (pass [exJob, exOther] [.remove "job"]).transitioned = [exOther]
    ∧ (pass [exJob, exOther] [.remove "job"]).forkedFor = [] := by decide +kernel
/-- a changed group (removed and added again in one pass): the old object is skipped, the new one is not in the list yet -/
example : (pass [exJob, exOther] [.remove "job", .add exJob']).table = [exOther, exJob']
    ∧ (pass [exJob, exOther] [.remove "job", .add exJob']).forkedFor = [] := by decide +kernel
example : exOther ∈ transitioned [exJob, exOther] (dispatch [exJob, exOther] [.remove "job"]) := by decide +kernel

/-- **equality_guard_transitions_removed_group.**  Why the guard must compare identities: decided with `in` (that is,
    by ProcessGroupBase.__eq__, which compares `processGroupEqAttrs` -- the priority), the removed group job IS
    transitioned as soon as another group of its priority is active, and its pending restart is forked. -/
theorem equality_guard_transitions_removed_group :
    exJob ∉ dispatch [exJob, exOther] [.remove "job"] ∧
    (∀ t ∈ dispatch [exJob, exOther] [.remove "job"], t.oid ≠ exJob.oid) ∧
    exJob ∈ transitionedWith .membershipEq true [exJob, exOther] (dispatch [exJob, exOther] [.remove "job"]) := by
  decide +kernel

/-- ... and no test at all does the same for every removed group -/
theorem no_guard_transitions_removed_group :
    exJob ∈ transitionedWith .none true [exJob, exOther] (dispatch [exJob, exOther] [.remove "job"]) := by
  decide +kernel

end loop

end Sv.Props.C15
