-- stub: replaced by the property author
namespace Sv.Props.C05
end Sv.Props.C05
