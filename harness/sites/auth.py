"""
C17: supervisor/medusa/auth_handler.py (handle_request, the AUTHORIZATION regexp),
http.encrypted_dictionary_authorizer.authorize, http.make_http_servers (which handlers are wrapped in
supervisor_auth_handler, in which order they are installed), medusa http_server.install_handler
(front insertion) and the status codes of the refusal paths.
"""
import ast, os, re
from extract import Site, REPO, find_func, lean_str, lean_bytes

LEAN_MODULE = 'Auth'
IMPORTS = []
OPENS = []


def _tree(path):
    return ast.parse(open(os.path.join(REPO, path)).read())


def _error_codes(func):
    """constants passed to <x>.error(...) in source order"""
    res = []
    for n in ast.walk(func):
        if isinstance(n, ast.Call) and isinstance(n.func, ast.Attribute) and n.func.attr == 'error' \
                and n.args and isinstance(n.args[0], ast.Constant):
            res.append((n.lineno, n.args[0].value))
    return [c for _, c in sorted(res)]


_MUTATORS = {'append', 'add', 'update', 'setdefault', 'pop', 'popitem', 'clear', 'extend', 'insert', 'remove', 'discard',
             '__setitem__', '__setattr__', '__delitem__', 'set', 'put', 'store', 'remember', 'cache'}
_DYNAMIC = {'getattr', 'setattr', 'hasattr', 'delattr', 'vars', 'globals', 'locals', 'eval', 'exec'}


def _root(e):
    while isinstance(e, (ast.Attribute, ast.Subscript, ast.Call)):
        e = e.value if not isinstance(e, ast.Call) else e.func
    return e.id if isinstance(e, ast.Name) else None


def _state_facts(func):
    """What in `func` can carry information from one request to the next.
    -> (persistent_writes, channel_refs, dynamic)
    persistent_writes: attribute/subscript targets of assignments/del and receivers of mutating method calls whose root
        object outlives the request: `self`, a module global, or a local bound to something that is not freshly made
        in this call (e.g. `channel = request.channel`); `global`/`nonlocal` declarations; setattr/delattr calls.
        The request object itself (`request.auth_info = ...`, `request['Connection'] = ...`) is per request.
    channel_refs: every maximal attribute chain that goes through `.channel` or `.server` (read or write)
    dynamic: getattr/hasattr/vars/globals/__dict__ ... (state access that is not visible as an attribute chain)"""
    params = [a.arg for a in func.args.args]
    per_request = set(params[1:2]) if params[:1] == ['self'] else set()      # the `request` parameter
    if func.name == 'authorize':
        per_request = set(params[1:])          # auth_info: made by handle_request for this request
    binds = {}
    for n in ast.walk(func):
        if isinstance(n, ast.Assign):
            for t in n.targets:
                for el in (t.elts if isinstance(t, (ast.Tuple, ast.List)) else [t]):
                    if isinstance(el, ast.Name):
                        binds.setdefault(el.id, []).append(n.value if len(n.targets) == 1 and not isinstance(t, (ast.Tuple, ast.List)) else None)
        elif isinstance(n, (ast.AugAssign, ast.AnnAssign)) and isinstance(n.target, ast.Name):
            binds.setdefault(n.target.id, []).append(None)
        elif isinstance(n, (ast.For, ast.With, ast.ExceptHandler, ast.NamedExpr)):
            for m in ast.walk(n.target if isinstance(n, (ast.For, ast.NamedExpr)) else n):
                if isinstance(m, ast.Name) and isinstance(m.ctx, ast.Store):
                    binds.setdefault(m.id, []).append(None)
    def fresh_value(v):
        """the value is made in this call out of per-request data: a literal, or the result of calling a module-level
        function / a method of a per-request or fresh object"""
        if v is None:
            return False
        if isinstance(v, (ast.Constant, ast.List, ast.Dict, ast.Tuple, ast.Set, ast.JoinedStr, ast.BinOp, ast.Compare)):
            return True
        if isinstance(v, ast.Call):
            r = _root(v.func)
            if isinstance(v.func, ast.Name):
                return v.func.id not in _DYNAMIC
            return r is not None and r != 'self' and (r in per_request or fresh(r)) and 'channel' not in ast.unparse(v.func) \
                and 'server' not in ast.unparse(v.func)
        return False
    seen = set()
    def fresh(name):
        if name in per_request:
            return True
        if name not in binds or name in seen:
            return False
        seen.add(name)
        try:
            return all(fresh_value(v) for v in binds[name])
        finally:
            seen.discard(name)
    def persistent(e):
        r = _root(e)
        txt = ast.unparse(e)
        if '.channel' in txt or '.server' in txt:
            return True
        return not (r is not None and fresh(r))
    writes, chans, dyn = [], [], []
    def target(t, lineno):
        for el in (t.elts if isinstance(t, (ast.Tuple, ast.List)) else [t]):
            if isinstance(el, (ast.Attribute, ast.Subscript)) and persistent(el):
                writes.append((lineno, ast.unparse(el)))
    inner = set()
    for n in ast.walk(func):
        if isinstance(n, ast.Assign):
            for t in n.targets:
                target(t, n.lineno)
        elif isinstance(n, (ast.AugAssign, ast.AnnAssign)):
            target(n.target, n.lineno)
        elif isinstance(n, ast.Delete):
            for t in n.targets:
                target(t, n.lineno)
        elif isinstance(n, (ast.Global, ast.Nonlocal)):
            writes.append((n.lineno, '%s %s' % (type(n).__name__.lower(), ','.join(n.names))))
        elif isinstance(n, ast.Call):
            f = n.func
            if isinstance(f, ast.Name) and f.id in _DYNAMIC:
                dyn.append((n.lineno, ast.unparse(n)))
            if isinstance(f, ast.Attribute) and f.attr in _MUTATORS and persistent(f.value):
                writes.append((n.lineno, ast.unparse(f) + '()'))
        if isinstance(n, ast.Attribute):
            if n.attr in ('__dict__', '__class__'):
                dyn.append((n.lineno, ast.unparse(n)))
            for ch in ast.iter_child_nodes(n):
                if isinstance(ch, ast.Attribute):
                    inner.add(id(ch))
    for n in ast.walk(func):
        if isinstance(n, ast.Attribute) and id(n) not in inner:
            txt = ast.unparse(n)
            parts = txt.split('.')
            if 'channel' in parts or 'server' in parts:
                chans.append((n.lineno, txt))
        if isinstance(n, ast.Name) and n.id in ('channel', 'server') and isinstance(n.ctx, ast.Load):
            chans.append((n.lineno, n.id))
    srt = lambda l: [t for _, t in sorted(set(l))]
    return srt(writes), srt(chans), srt(dyn)


def _lean_strs(l):
    return '[%s]' % ', '.join(lean_str(x) for x in l)


def _connection_state_tables(out):
    """the state a decision could read from, or leave behind for, another request on the same connection"""
    t = _tree('supervisor/medusa/auth_handler.py')
    ht = _tree('supervisor/http.py')
    out.append('-- state that outlives a request (the channel, the handler object, module globals): what the decision path')
    out.append('-- writes to it, reads from it through `.channel`/`.server`, or reaches dynamically (getattr, __dict__, globals ...)')
    for pref, tree, qual in (('hr', t, 'auth_handler.handle_request'), ('hu', t, 'auth_handler.handle_unauthorized'),
                             ('mt', t, 'auth_handler.match'), ('az', ht, 'encrypted_dictionary_authorizer.authorize')):
        w, c, d = _state_facts(find_func(tree, qual))
        out.append('-- %s' % qual)
        out.append('def %s_persistent_writes : List String := %s' % (pref, _lean_strs(w)))
        out.append('def %s_channel_refs : List String := %s' % (pref, _lean_strs(c)))
        out.append('def %s_dynamic : List String := %s' % (pref, _lean_strs(d)))
    # handle_unauthorized: request.channel.set_terminator(None) -- the channel reads no further request
    hu = find_func(t, 'auth_handler.handle_unauthorized')
    stops = [n for n in ast.walk(hu) if isinstance(n, ast.Call) and ast.unparse(n.func) == 'request.channel.set_terminator'
             and len(n.args) == 1 and isinstance(n.args[0], ast.Constant) and n.args[0].value is None]
    out.append('/-- handle_unauthorized calls request.channel.set_terminator(None): after a 401 the channel collects, and never dispatches, whatever else arrives -/')
    out.append('def unauthorized_stops_reading : Bool := %s' % ('true' if len(stops) == 1 else 'false'))
    # which methods supervisor_auth_handler defines itself (everything else is medusa's auth_handler)
    cls = [n for n in ht.body if isinstance(n, ast.ClassDef) and n.name == 'supervisor_auth_handler']
    assert len(cls) == 1
    out.append('def auth_subclass_bases : List String := %s' % _lean_strs([ast.unparse(b) for b in cls[0].bases]))
    out.append('def auth_subclass_defines : List String := %s' % _lean_strs(sorted(
        [n.name for n in cls[0].body if isinstance(n, (ast.FunctionDef, ast.AsyncFunctionDef))] +
        [ast.unparse(tg) for n in cls[0].body if isinstance(n, ast.Assign) for tg in n.targets])))
    base = [n for n in t.body if isinstance(n, ast.ClassDef) and n.name == 'auth_handler']
    assert len(base) == 1
    out.append('def auth_base_special_methods : List String := %s' % _lean_strs(sorted(
        n.name for n in base[0].body if isinstance(n, ast.FunctionDef) and n.name.startswith('__') and n.name != '__init__')))


def _env_key(node, names):
    """'ENV_%s' % k | 'ENV_' + k | f'ENV_{k}' | 'ENV_{}'.format(k)  ->  (prefix, variable) or None"""
    if isinstance(node, ast.BinOp) and isinstance(node.op, ast.Mod) and isinstance(node.left, ast.Constant) \
            and isinstance(node.left.value, str) and node.left.value.endswith('%s') and node.left.value.count('%') == 1:
        r = node.right
        if isinstance(r, ast.Tuple) and len(r.elts) == 1:
            r = r.elts[0]
        if isinstance(r, ast.Name) and r.id in names:
            return node.left.value[:-2], r.id
    if isinstance(node, ast.BinOp) and isinstance(node.op, ast.Add) and isinstance(node.left, ast.Constant) \
            and isinstance(node.left.value, str) and isinstance(node.right, ast.Name) and node.right.id in names:
        return node.left.value, node.right.id
    if isinstance(node, ast.JoinedStr) and len(node.values) == 2 and isinstance(node.values[0], ast.Constant) \
            and isinstance(node.values[1], ast.FormattedValue) and isinstance(node.values[1].value, ast.Name) \
            and node.values[1].value.id in names and node.values[1].conversion == -1 and node.values[1].format_spec is None:
        return node.values[0].value, node.values[1].value.id
    if isinstance(node, ast.Call) and isinstance(node.func, ast.Attribute) and node.func.attr == 'format' \
            and isinstance(node.func.value, ast.Constant) and isinstance(node.func.value.value, str) \
            and node.func.value.value.endswith('{}') and node.func.value.value.count('{') == 1 \
            and len(node.args) == 1 and not node.keywords and isinstance(node.args[0], ast.Name) and node.args[0].id in names:
        return node.func.value.value[:-2], node.args[0].id
    return None


def _env_fill_loops(stmts):
    """top-level `for K, V in <src>.items(): <dict>[<'ENV_%s' % K>] = V` statements of a statement list
    -> [(index, source text, dictionary text, key prefix)]"""
    res = []
    for i, st in enumerate(stmts):
        if not isinstance(st, ast.For) or st.orelse:
            continue
        it = st.iter
        if not (isinstance(it, ast.Call) and isinstance(it.func, ast.Attribute) and it.func.attr == 'items' and not it.args
                and isinstance(st.target, ast.Tuple) and len(st.target.elts) == 2 and all(isinstance(e, ast.Name) for e in st.target.elts)):
            continue
        k, v = st.target.elts[0].id, st.target.elts[1].id
        body = [b for b in st.body if not isinstance(b, ast.Pass)]
        if len(body) != 1 or not isinstance(body[0], ast.Assign) or len(body[0].targets) != 1 \
                or not isinstance(body[0].targets[0], ast.Subscript):
            continue
        tg = body[0].targets[0]
        key = _env_key(tg.slice, {k})
        if key is None or not (isinstance(body[0].value, ast.Name) and body[0].value.id == v):
            continue
        res.append((i, ast.unparse(it.func.value), ast.unparse(tg.value), key[0]))
    return res


def _config_file_tables(out):
    """How a server section's username/password (written literally or as %(ENV_X)s) become the credentials the
    server is built with: ServerOptions.read_config / server_configs_from_parser / _parse_username_and_password,
    UnhosedConfigParser.saneget, Options.__init__.  Helpers of sites/config.py (which extracts other facts about
    the same read_config) are reused by import."""
    from sites.config import OPT, _find as cfg_find, _tree as cfg_tree
    t = cfg_tree(OPT)
    rc = cfg_find(t, 'ServerOptions.read_config')
    body = rc.body
    out.append('-- ServerOptions.read_config: which dictionary the parser expands %(ENV_X)s from, where the [supervisord]')
    out.append('-- environment= is merged into it, and where the [inet_http_server]/[unix_http_server] sections are parsed')
    # -- parser.expansions = <src>
    binds = [(i, st) for i, st in enumerate(body) if isinstance(st, ast.Assign) and len(st.targets) == 1
             and ast.unparse(st.targets[0]) == 'parser.expansions']
    nested_binds = [n for n in ast.walk(rc) if isinstance(n, (ast.Assign, ast.AugAssign, ast.AnnAssign))
                    and any(ast.unparse(tg) == 'parser.expansions' for tg in (n.targets if isinstance(n, ast.Assign) else [n.target]))]
    bind_src = ast.unparse(binds[0][1].value) if binds else ''
    out.append('def rc_parser_expansions_src : String := %s' % lean_str(bind_src))
    # -- the merge loop
    merges = [m for m in _env_fill_loops(body) if m[1] == 'section.environment']
    out.append('def rc_env_merges : List (String × String × String) := [%s]'
               % ', '.join('(%s, %s, %s)' % (lean_str(s), lean_str(d), lean_str(p)) for _, s, d, p in merges))
    # -- the call that parses the server sections
    calls = [n for n in ast.walk(rc) if isinstance(n, ast.Call) and ast.unparse(n.func) == 'self.server_configs_from_parser']
    top = [(i, st) for i, st in enumerate(body) if isinstance(st, ast.Assign) and len(st.targets) == 1
           and ast.unparse(st.targets[0]) == 'section.server_configs' and isinstance(st.value, ast.Call)
           and ast.unparse(st.value.func) == 'self.server_configs_from_parser']
    call_args = [ast.unparse(a) for a in top[0][1].value.args] if top else []
    out.append('def rc_server_parse_calls : Nat := %d' % len(calls))
    out.append('def rc_server_parse_args : List String := %s' % _lean_strs(call_args))
    # -- the order
    after = bool(len(merges) == 1 and len(top) == 1 and len(calls) == 1 and merges[0][0] < top[0][0])
    out.append('/-- `section.server_configs = self.server_configs_from_parser(parser)` is a statement of read_config\'s own body that')
    out.append('    comes after the loop merging the [supervisord] environment= into the ENV_ expansions -/')
    out.append('def rc_servers_parsed_after_env_merge : Bool := %s' % ('true' if after else 'false'))
    # -- is the dictionary the parser expands from the very dictionary the merge loop fills (not a copy)?
    shares = bool(len(binds) == 1 and len(nested_binds) == 1 and len(merges) == 1 and bind_src == merges[0][2]
                  and len(top) == 1 and binds[0][0] < top[0][0] and call_args == ['parser'])
    out.append('/-- `parser.expansions` is bound once, before that call, to the dictionary the merge loop fills (an alias, not a copy) -/')
    out.append('def rc_parser_shares_expansions : Bool := %s' % ('true' if shares else 'false'))
    # -- the restore at the start of a read (since the F53 repair): `if self.<A> is not None: self.environ_expansions.clear();
    #    self.environ_expansions.update(self.<A>)` before the parser exists, where self.<A> is assigned exactly once in the module,
    #    `self.<A> = dict(self.environ_expansions)`, as the statement right before the merge loop (class default `<A> = None`):
    #    every read starts from the dictionary as it was before the previous read merged its [supervisord] environment= into it
    restore_nodes, restores = set(), False
    if len(merges) == 1 and binds:
        for i, st in enumerate(body[:binds[0][0]]):
            if not (isinstance(st, ast.If) and not st.orelse and isinstance(st.test, ast.Compare) and len(st.test.ops) == 1
                    and isinstance(st.test.ops[0], ast.IsNot) and ast.unparse(st.test.comparators[0]) == 'None'
                    and isinstance(st.test.left, ast.Attribute) and ast.unparse(st.test.left.value) == 'self'):
                continue
            snap = st.test.left.attr
            if [ast.unparse(b) for b in st.body] != ['self.environ_expansions.clear()', 'self.environ_expansions.update(self.%s)' % snap]:
                continue
            stores = [n for n in ast.walk(t) if isinstance(n, ast.Attribute) and n.attr == snap and isinstance(n.ctx, (ast.Store, ast.Del))]
            prev = body[merges[0][0] - 1] if merges[0][0] > 0 else None
            ok_snap = (len(stores) == 1 and isinstance(prev, ast.Assign) and len(prev.targets) == 1 and prev.targets[0] is stores[0]
                       and ast.unparse(prev) == 'self.%s = dict(self.environ_expansions)' % snap)
            so_cls = cfg_find(t, 'ServerOptions')
            defaults = [c for c in so_cls.body if isinstance(c, ast.Assign) and ast.unparse(c) == '%s = None' % snap]
            names = [n for n in ast.walk(t) if isinstance(n, ast.Name) and n.id == snap and isinstance(n.ctx, ast.Store)]
            if ok_snap and len(defaults) == 1 and len(names) == 1:
                restores = True
                restore_nodes.update(id(n) for n in ast.walk(st))
                restore_nodes.update(id(n) for n in ast.walk(prev))
    out.append('/-- read_config begins by putting the ENV_ expansions back to the snapshot it took, in the previous read, right before')
    out.append('    merging that read\'s [supervisord] environment= (no-op in the first read): each read starts from the constructor\'s dictionary -/')
    out.append('def rc_restores_snapshot_before_read : Bool := %s' % ('true' if restores else 'false'))
    # -- anything else in read_config that rebinds, empties or removes from either dictionary
    others = []
    dicts = {'parser.expansions', bind_src or 'self.environ_expansions', 'self.environ_expansions'}
    merge_nodes = set(restore_nodes)
    for i, _, _, _ in merges:
        merge_nodes.update(id(n) for n in ast.walk(body[i]))
    for n in ast.walk(rc):
        if id(n) in merge_nodes or (binds and n is binds[0][1]):
            continue
        if isinstance(n, (ast.Assign, ast.AugAssign, ast.AnnAssign, ast.Delete)):
            tgs = n.targets if isinstance(n, (ast.Assign, ast.Delete)) else [n.target]
            for tg in tgs:
                base = tg.value if isinstance(tg, ast.Subscript) else tg
                if ast.unparse(base) in dicts:
                    others.append((n.lineno, ast.unparse(n)))
        if isinstance(n, ast.Call) and isinstance(n.func, ast.Attribute) and n.func.attr in _MUTATORS \
                and ast.unparse(n.func.value) in dicts:
            others.append((n.lineno, ast.unparse(n)))
    out.append('def rc_other_expansion_writes : List String := %s' % _lean_strs([s for _, s in sorted(set(others))]))
    # -- Options.__init__: the ENV_ expansions start as a snapshot of os.environ
    init = cfg_find(t, 'Options.__init__')
    fresh = [i for i, st in enumerate(init.body) if isinstance(st, ast.Assign) and len(st.targets) == 1
             and ast.unparse(st.targets[0]) == 'self.environ_expansions' and ast.unparse(st.value) in ('{}', 'dict()')]
    fills = [m for m in _env_fill_loops(init.body) if m[1] == 'os.environ' and m[2] == 'self.environ_expansions']
    out.append('def init_env_prefix : String := %s' % lean_str(fills[0][3] if fills else ''))
    out.append('def init_snapshots_os_environ : Bool := %s'
               % ('true' if len(fresh) == 1 and len(fills) == 1 and fresh[0] < fills[0][0] else 'false'))
    so_init = cfg_find(t, 'ServerOptions.__init__')
    so_touch = [ast.unparse(n) for n in ast.walk(so_init) if isinstance(n, ast.Attribute) and n.attr == 'environ_expansions']
    out.append('def server_init_touches_expansions : Bool := %s' % ('true' if so_touch else 'false'))
    # -- _parse_username_and_password: both options through parser.saneget with the default expansion
    up = cfg_find(t, 'ServerOptions._parse_username_and_password')
    aliases = {ast.unparse(st.targets[0]) for st in ast.walk(up) if isinstance(st, ast.Assign) and len(st.targets) == 1
               and ast.unparse(st.value) == 'parser.saneget'} | {'parser.saneget'}
    srcs = []
    for nm in ('username', 'password'):
        asg = [st for st in ast.walk(up) if isinstance(st, ast.Assign) and len(st.targets) == 1 and ast.unparse(st.targets[0]) == nm]
        ok = (len(asg) == 1 and isinstance(asg[0].value, ast.Call) and ast.unparse(asg[0].value.func) in aliases
              and [ast.unparse(a) for a in asg[0].value.args] == ['section', repr(nm), 'None'] and not asg[0].value.keywords)
        srcs.append((nm, ok))
    rets = [n for n in ast.walk(up) if isinstance(n, ast.Return)]
    ret_ok = len(rets) == 1 and ast.unparse(rets[0].value).replace(' ', '') == "{'username':username,'password':password}"
    out.append('/-- username and password are `parser.saneget(section, <option>, None)` (expanded, no expansions of their own), returned unchanged -/')
    out.append('def cred_options_expanded_by_parser : Bool := %s' % ('true' if all(ok for _, ok in srcs) and ret_ok else 'false'))
    scp = cfg_find(t, 'ServerOptions.server_configs_from_parser')
    upd = [n for n in ast.walk(scp) if isinstance(n, ast.Call) and ast.unparse(n.func) == 'config.update' and len(n.args) == 1
           and ast.unparse(n.args[0]) == 'self._parse_username_and_password(parser, section)']
    sets = [ast.unparse(n) for n in ast.walk(scp) if isinstance(n, ast.Assign)
            and any(isinstance(tg, ast.Subscript) and ast.unparse(tg.value) == 'config' and isinstance(tg.slice, ast.Constant)
                    and tg.slice.value in ('username', 'password') for tg in n.targets)]
    out.append('def server_sections_take_parsed_credentials : Bool := %s' % ('true' if len(upd) == 2 and not sets else 'false'))
    # -- UnhosedConfigParser.saneget: expand(optval, self.expansions + the caller's)
    sg = cfg_find(t, 'UnhosedConfigParser.saneget')
    src = ast.unparse(sg).replace(' ', '')
    comb = [st for st in ast.walk(sg) if isinstance(st, ast.Assign) and len(st.targets) == 1 and isinstance(st.targets[0], ast.Name)
            and 'self.expansions' in ast.unparse(st.value)]
    ex = [n for n in ast.walk(sg) if isinstance(n, ast.Call) and ast.unparse(n.func) == 'expand' and len(n.args) >= 2
          and comb and ast.unparse(n.args[0]) == 'optval' and ast.unparse(n.args[1]) == comb[0].targets[0].id]
    out.append('def saneget_expands_from_parser_expansions : Bool := %s' % ('true' if len(comb) == 1 and len(ex) == 1 else 'false'))


def TABLES():
    out = []
    _connection_state_tables(out)
    _config_file_tables(out)
    # ---- the Authorization regexp ------------------------------------------------------------
    t = _tree('supervisor/medusa/auth_handler.py')
    pat = flags = None
    for n in t.body:
        if isinstance(n, ast.Assign) and ast.unparse(n.targets[0]) == 'AUTHORIZATION':
            assert ast.unparse(n.value.func) == 're.compile'
            pat = n.value.args[0].value
            flags = [ast.unparse(a) for a in n.value.args[1:]]
    assert pat is not None, 'AUTHORIZATION regexp not found'
    lit, _, tail = pat.partition('(')
    out.append('-- auth_handler.AUTHORIZATION = re.compile(%r, %s)' % (pat, ', '.join(flags)))
    out.append('def auth_pattern : String := %s' % lean_str(pat))
    out.append('def auth_lit : List UInt8 := %s' % lean_bytes(lit.encode()))
    out.append('def auth_pattern_tail : String := %s' % lean_str('(' + tail))
    out.append('def auth_ignorecase : Bool := %s' % ('true' if flags == ['re.IGNORECASE'] else 'false'))
    # ---- get_header: first line whose match covers the whole line ---------------------------
    gh = find_func(_tree('supervisor/medusa/http_server.py'), 'get_header')
    out.append('-- default_handler.get_header: %s' % ' / '.join(l.strip() for l in ast.unparse(gh).split('\n')[1:]))
    out.append('def get_header_src : String := %s' % lean_str(' / '.join(l.strip() for l in ast.unparse(gh).split('\n')[1:])))
    # ---- handle_request: status codes, groups, split ----------------------------------------
    hr = find_func(t, 'auth_handler.handle_request')
    hu = find_func(t, 'auth_handler.handle_unauthorized')
    codes = _error_codes(hr)
    assert len(codes) == 1, 'one request.error in handle_request (the malformed path)'
    out.append('def code_malformed : Nat := %d' % codes[0])
    codes = _error_codes(hu)
    assert len(codes) == 1
    out.append('def code_unauthorized : Nat := %d' % codes[0])
    hdrs = []
    for n in ast.walk(hu):
        if isinstance(n, ast.Assign) and isinstance(n.targets[0], ast.Subscript) and ast.unparse(n.targets[0].value) == 'request':
            v = n.value
            val = v.value if isinstance(v, ast.Constant) else (v.left.value if isinstance(v, ast.BinOp) else ast.unparse(v))
            hdrs.append((n.lineno, n.targets[0].slice.value, val))
    hdrs.sort()
    out.append('def unauthorized_headers : List (String × String) := [%s]' % ', '.join('(%s, %s)' % (lean_str(k), lean_str(v)) for _, k, v in hdrs))
    groups = []
    for n in ast.walk(hr):
        if isinstance(n, ast.Call) and ast.unparse(n.func) == 'get_header':
            groups.append((n.lineno, n.args[2].value if len(n.args) > 2 else 1))
    out.append('def header_groups : List Nat := [%s]' % ', '.join(str(g) for _, g in sorted(groups)))
    splits = [n for n in ast.walk(hr) if isinstance(n, ast.Call) and isinstance(n.func, ast.Attribute) and n.func.attr == 'split']
    assert len(splits) == 1
    out.append('def split_sep : List UInt8 := %s' % lean_bytes(splits[0].args[0].value.encode()))
    out.append('def split_max : Nat := %d' % splits[0].args[1].value)
    # is the authorizer call outside the try that maps decoding errors to the malformed answer?
    tries = [n for n in ast.walk(hr) if isinstance(n, ast.Try)]
    assert len(tries) == 1
    in_try = any(isinstance(n, ast.Call) and ast.unparse(n.func).endswith('authorize') for n in ast.walk(tries[0]))
    out.append('def authorize_inside_try : Bool := %s' % ('true' if in_try else 'false'))
    out.append('def decode_handler_is_bare_except : Bool := %s' % ('true' if tries[0].handlers[0].type is None else 'false'))
    # ---- encrypted_dictionary_authorizer ------------------------------------------------------
    ht = _tree('supervisor/http.py')
    az = find_func(ht, 'encrypted_dictionary_authorizer.authorize')
    pref = [n for n in ast.walk(az) if isinstance(n, ast.Call) and isinstance(n.func, ast.Attribute) and n.func.attr == 'startswith']
    assert len(pref) == 1
    out.append('def sha_prefix : List UInt8 := %s' % lean_bytes(pref[0].args[0].value.encode()))
    # ---- make_http_servers ----------------------------------------------------------------------
    mk = find_func(ht, 'make_http_servers')
    ctor = {}      # handler variable -> constructor name
    wrapped = []   # variables re-bound to supervisor_auth_handler(users, <same variable>) under `if username:`
    installed = []
    users_src = None
    wrap_guard = None
    for n in ast.walk(mk):
        if isinstance(n, ast.If) and any(isinstance(s, ast.Assign) and isinstance(s.value, ast.Call)
                                          and ast.unparse(s.value.func) == 'supervisor_auth_handler' for s in n.body):
            wrap_guard = ast.unparse(n.test)
            for s in n.body:
                if isinstance(s, ast.Assign) and ast.unparse(s.targets[0]) == 'users':
                    users_src = ast.unparse(s.value)
                if isinstance(s, ast.Assign) and isinstance(s.value, ast.Call) and ast.unparse(s.value.func) == 'supervisor_auth_handler':
                    tgt = ast.unparse(s.targets[0])
                    args = [ast.unparse(a) for a in s.value.args]
                    if args == ['users', tgt]:
                        wrapped.append((s.lineno, tgt))
            # an else branch must not wrap or install anything
    for n in ast.walk(mk):
        if isinstance(n, ast.Assign) and isinstance(n.value, ast.Call) and isinstance(n.targets[0], ast.Name):
            fn = ast.unparse(n.value.func)
            if fn != 'supervisor_auth_handler' and n.targets[0].id.endswith('handler'):
                ctor[n.targets[0].id] = fn
        if isinstance(n, ast.Call) and ast.unparse(n.func) == 'hs.install_handler':
            installed.append((n.lineno, ast.unparse(n.args[0]), len(n.args) + len(n.keywords)))
    installed.sort()
    out.append('-- make_http_servers: handler constructors %s' % ctor)
    out.append('def wrap_guard : String := %s' % lean_str(wrap_guard or ''))
    out.append('def users_dict : String := %s' % lean_str(users_src or ''))
    out.append('def installed : List String := [%s]' % ', '.join(lean_str(v) for _, v, _ in installed))
    out.append('def install_extra_args : Bool := %s' % ('true' if any(k != 1 for _, _, k in installed) else 'false'))
    out.append('def wrapped_when_auth : List String := [%s]' % ', '.join(lean_str(v) for _, v in sorted(wrapped)))
    out.append('def handler_classes : List (String × String) := [%s]' % ', '.join('(%s, %s)' % (lean_str(k), lean_str(v)) for k, v in sorted(ctor.items())))
    # ---- where the users dictionary, the credentials and the handlers are built: per server? -------
    loops = [n for n in mk.body if isinstance(n, ast.For)]
    assert len(loops) == 1, 'one loop over the server configurations'
    loop = loops[0]
    loop_var, loop_iter = ast.unparse(loop.target), ast.unparse(loop.iter)
    bindings = []     # (statement text, scope) for everything that binds or mutates `users`
    creds = []        # (variable, source, scope) for username / password
    built = []        # (variable, scope) for hs and the handler variables
    def touches_users(st):
        if isinstance(st, ast.Assign):
            for t in st.targets:
                if ast.unparse(t) == 'users' or (isinstance(t, ast.Subscript) and ast.unparse(t.value) == 'users'):
                    return True
        if isinstance(st, ast.AugAssign) and ast.unparse(st.target).startswith('users'):
            return True
        if isinstance(st, ast.Expr) and isinstance(st.value, ast.Call) and ast.unparse(st.value.func).startswith('users.'):
            return True
        return False
    def walk(stmts, scope):
        for st in stmts:
            if touches_users(st):
                bindings.append((ast.unparse(st), scope))
            if isinstance(st, ast.Assign) and len(st.targets) == 1 and isinstance(st.targets[0], ast.Name):
                nm = st.targets[0].id
                if nm in ('username', 'password'):
                    creds.append((nm, ast.unparse(st.value), scope))
                if nm == 'hs' or (nm in ctor and not ast.unparse(st.value).startswith('supervisor_auth_handler')):
                    built.append((nm, scope))
            if isinstance(st, ast.For):
                walk(st.body, scope + ('/' if scope != 'function' else ':') + 'loop' if st is not loop else 'loop')
                walk(st.orelse, scope)
            elif isinstance(st, ast.If):
                walk(st.body, scope + '/if:' + ast.unparse(st.test))
                walk(st.orelse, scope + '/else:' + ast.unparse(st.test))
            elif isinstance(st, ast.Try):
                walk(st.body, scope); walk(st.orelse, scope); walk(st.finalbody, scope)
                for h in st.handlers:
                    walk(h.body, scope)
            elif isinstance(st, (ast.With, ast.While)):
                walk(st.body, scope)
    walk(mk.body, 'function')
    out.append('-- make_http_servers: everything that binds or mutates `users`, with the enclosing scope')
    out.append('def users_bindings : List (String × String) := [%s]' % ', '.join('(%s, %s)' % (lean_str(a), lean_str(b)) for a, b in bindings))
    out.append('def cred_sources : List (String × String × String) := [%s]' % ', '.join('(%s, %s, %s)' % (lean_str(a), lean_str(b), lean_str(c)) for a, b, c in creds))
    out.append('def server_loop : String × String := (%s, %s)' % (lean_str(loop_var), lean_str(loop_iter)))
    out.append('def built_scopes : List (String × String) := [%s]' % ', '.join('(%s, %s)' % (lean_str(a), lean_str(b)) for a, b in sorted(set(built))))
    in_loop = all(sc.startswith('loop') for _, sc in built) and {'hs'} <= {a for a, _ in built}
    out.append('def all_built_in_loop : Bool := %s' % ('true' if in_loop else 'false'))
    per_server = (bindings == [('users = {username: password}', 'loop/if:' + (wrap_guard or ''))]
                  and sorted(creds) == sorted([('username', "%s['username']" % loop_var, 'loop'), ('password', "%s['password']" % loop_var, 'loop')])
                  and loop_iter == 'options.server_configs'
                  and all(sc.startswith('loop') for _, sc in built) and {'hs'} <= {a for a, _ in built})
    out.append('/-- the users dictionary is built afresh for each server, from that server section\'s own username and password only -/')
    out.append('def users_per_server : Bool := %s' % ('true' if per_server else 'false'))
    # install_handler(handler, back=0): front insertion by default
    ih = find_func(_tree('supervisor/medusa/http_server.py'), 'http_server.install_handler')
    front = (ast.unparse(ih.args.defaults[0]) == '0' and 'self.handlers.insert(0, handler)' in ast.unparse(ih))
    out.append('def install_at_front : Bool := %s' % ('true' if front else 'false'))
    order = [v for _, v, _ in installed]
    if front:
        order = list(reversed(order))
    out.append('def dispatch_order : List String := [%s]' % ', '.join(lean_str(v) for v in order))
    # ---- channel dispatch: status codes ------------------------------------------------------------
    ft = find_func(ht, 'deferring_http_channel.found_terminator')
    loops = [n for n in ast.walk(ft) if isinstance(n, ast.For) and ast.unparse(n.iter) == 'self.server.handlers']
    assert len(loops) == 1, 'the dispatch loop'
    lp = loops[0]
    in_loop = _error_codes(lp)
    assert len(in_loop) == 1
    out.append('def code_exception : Nat := %d' % in_loop[0])
    after = [c for c in _error_codes(ft)]
    out.append('def code_no_handler : Nat := %d' % after[-1])
    # first match: `if h.match(r): try: h.handle_request(r) except: ... return`
    iff = lp.body[0]
    first_match = (isinstance(iff, ast.If) and ast.unparse(iff.test) == 'h.match(r)' and isinstance(iff.body[-1], ast.Return)
                   and isinstance(iff.body[0], ast.Try) and iff.body[0].handlers[0].type is None)
    out.append('def dispatch_first_match_returns : Bool := %s' % ('true' if first_match else 'false'))
    return out


_hr_vars = {'scheme': ('scheme', 'bytes')}
_az_vars = {
    'username': ('username', 'bytes'), 'password': ('password', 'bytes'),
    'stored_password': ('stored_password', 'bytes'), 'password_hash': ('password_hash', 'bytes'),
    'self.dict': ('dictKeys', 'list'),
}
_az_vars["stored_password.startswith('{SHA}')"] = ('(List.isPrefixOf sha_prefix stored_password)', 'bool')
_az_consts = {}

SITES = [
    Site('supervisor/medusa/auth_handler.py', 'auth_handler.handle_request', 'handleReq',
         '(scheme : List UInt8)', _hr_vars, want={'handleReq_g0', 'handleReq_g1'}, str_as_bytes=True),
    Site('supervisor/http.py', 'encrypted_dictionary_authorizer.authorize', 'authz',
         '(username password stored_password password_hash : List UInt8) (dictKeys : List (List UInt8))',
         _az_vars, consts=_az_consts, want={'authz_g0', 'authz_g1', 'authz_a3', 'authz_a4', 'authz_a5'}),
    Site('supervisor/http.py', 'make_http_servers', 'mkServers',
         '(username : Option (List UInt8))',
         {'username': ('username', 'optbytes')},
         want={'mkServers_g2'}),   # the `if username:` guard
]
