import SupervisorModel.Lemmas.Child
/-
  C18 — a child runs the command only in the environment it was promised.

  `childLog c orc` (Model/Child.lean) is the ordered log of system calls of `_spawn_as_child`
  for configuration `c` under the fault oracle `orc` (position → call → failure).  All theorems
  below are for EVERY configuration and EVERY oracle.  The conditions, constants, message texts
  and exception guards the model uses are regenerated from /repo on every run (`Sv.Gen.Child`).

  Layout: (1) the promise in the property's own terms; (2) auxiliary lemmas (namespace
  `Sv.Child.Aux`, not property statements); (3) the property theorems (namespace `Sv.Props.C18`).
-/
set_option linter.unusedSimpArgs false
set_option linter.unusedVariables false

/-! ## 1. The promise -/
namespace Sv.Props.C18
open Sv Sv.Child Sv.Gen.Child

/-- `close(fd)` for every descriptor from 3 up to, not including, `minfds` (see `mem_pyRange`) -/
def closeCalls (minfds : Int) : List Call := (pyRange 3 minfds).map Call.close

/-- switching to the configured user: look the uid up, compare with the current uid, and unless
    it is already ours set the supplementary groups (primary gid first), the gid and the uid -/
def userCalls (c : Cfg) : List Call :=
  match c.uid with
  | none => []
  | some u => [.getpwuid u, .getuid] ++
      (if c.curUid = u then [] else [.getgrall, .setgroups (groupList c), .setgid c.pwGid, .setuid u])

/-- everything that must have happened, in this order, before `execve` is attempted -/
def promisedCalls (c : Cfg) : List Call :=
  [.setpgrp] ++ (if c.fcgi then [.sockFileno] else []) ++
  [.dup2 (if c.fcgi then c.sockFd else c.pin) 0, .dup2 c.pout 1,
   .dup2 (if c.redirect then c.pout else c.perr) 2] ++
  closeCalls c.minfds ++ userCalls c ++
  (match c.directory with | some d => [.chdir d] | none => []) ++
  (match c.umask with | some m => [.umask m] | none => [])

/-- the configured user can be assumed at all: it is the current one, or we are root -/
def CanSwitch (c : Cfg) : Prop := ∀ u, c.uid = some u → c.curUid = u ∨ c.curUid = 0

/-- a call that succeeded — or a `close` that raised OSError (EBADF: the descriptor was not open),
    which `close_fd` ignores -/
def OkEv (e : Ev) : Prop := e.res = none ∨ ∃ fd errno name, e = ⟨.close fd, some (.oserr errno name)⟩

/-- the last binding of `k` in a list of bindings -/
def lookupLast : Env → String → Option String
  | [], _ => none
  | (k', v) :: rest, k =>
    match lookupLast rest k with
    | some x => some x
    | none => if k' = k then some v else none

/-- the server URL a child is told: the program's own `serverurl`, else supervisord's -/
def effectiveUrl (c : Cfg) : Option String := match c.serverurl with | some u => some u | none => c.optServerurl

/-- SUPERVISOR_* variables in the order they are set -/
def supervisorVars (c : Cfg) : Env :=
  [("SUPERVISOR_ENABLED", "1")] ++
  (match effectiveUrl c with | some u => if u.isEmpty then [] else [("SUPERVISOR_SERVER_URL", u)] | none => []) ++
  [("SUPERVISOR_PROCESS_NAME", c.name)] ++
  (match c.group with | some g => [("SUPERVISOR_GROUP_NAME", g)] | none => [])

/-- supervisord's own environment, overlaid with SUPERVISOR_*, overlaid with the configured one -/
def promisedLookup (c : Cfg) (k : String) : Option String :=
  match lookupLast (c.environment.getD []) k with
  | some v => some v
  | none =>
    match lookupLast (supervisorVars c) k with
    | some v => some v
    | none => envGet c.osenv k

/-- reason written for a failing `umask`/`execve` -/
def execReason (c : Cfg) : Fail → Option String
  | .oserr _ n => c.argv.head?.map fun a => msgExec a n
  | .keyerr d => some (msgExecOther c.filename d)
  | .other d => some (msgExecOther c.filename d)

/-- the failures of the user switch, of the directory change and of the exec, with the reason the
    child writes for each (`none` = not a failure of that kind, see `Raises`) -/
def reasonFor (c : Cfg) : Call → Fail → Option String
  | .getpwuid u, .keyerr _ => some (msgSetuid u (reasonNoUid u))
  | .setgroups _, .oserr _ _ => c.uid.map fun u => msgSetuid u reasonGroups
  | .setgid _, .oserr _ _ => c.uid.map fun u => msgSetuid u reasonGid
  | .setuid _, .oserr _ _ => c.uid.map fun u => msgSetuid u reasonUid
  | .chdir d, .oserr _ n => some (msgChdir d n)
  | .umask _, f => execReason c f
  | .execve _ _ _, f => execReason c f
  | _, _ => none

/-- the ways the calls of the user switch, the directory change and the exec fail: the password
    database lookup with KeyError, the system calls `setgroups`/`setgid`/`setuid`/`chdir` with
    OSError (any errno), the exec stage (`umask`, `execve`) with any exception whatsoever -/
def Raises : Call → Fail → Prop
  | .getpwuid _, f => ∃ d, f = .keyerr d
  | .setgroups _, f => ∃ e n, f = .oserr e n
  | .setgid _, f => ∃ e n, f = .oserr e n
  | .setuid _, f => ∃ e n, f = .oserr e n
  | .chdir _, f => ∃ e n, f = .oserr e n
  | .umask _, _ => True
  | .execve _ _ _, _ => True
  | _, _ => False

/-- an entry after which the process no longer runs supervisord's code -/
def Terminal (e : Ev) : Prop := (∃ n, e.call = .exit n) ∨ (e.call.isExecve = true ∧ e.res = none)

/-- the two calls that end every run in which the command was not executed -/
def lastWords (r : Option Fail) : List Ev :=
  [⟨.write 2 "supervisor: child process was not spawned\n", r⟩, ⟨.exit 127, none⟩]

end Sv.Props.C18

/-! ## 2. Auxiliary lemmas -/
namespace Sv.Child.Aux
open Sv Sv.Child Sv.Gen.Child Sv.Props.C18

theorem finalEvs_eq (orc : Oracle) (n : Nat) : ∃ r, finalEvs orc n = lastWords r :=
  ⟨orc n (.write write_fd msg_not_spawned), rfl⟩

theorem envGet_envSet (k v k' : String) : ∀ e : Env,
    envGet (envSet k v e) k' = if k = k' then some v else envGet e k' := by
  intro e
  induction e with
  | nil => simp [envSet, envGet]
  | cons kv rest ih =>
    obtain ⟨a, b⟩ := kv
    by_cases h : a = k
    · subst h
      by_cases h2 : a = k' <;> simp [envSet, envGet, h2]
    · by_cases h2 : a = k'
      · subst h2; simp [envSet, envGet, h, Ne.symm h]
      · simp [envSet, envGet, h, h2, ih]

theorem envGet_envUpdate (k : String) : ∀ (d e : Env),
    envGet (envUpdate e d) k = match lookupLast d k with | some v => some v | none => envGet e k := by
  intro d
  induction d with
  | nil => intro e; simp [envUpdate, lookupLast]
  | cons kv rest ih =>
    intro e
    obtain ⟨a, b⟩ := kv
    have := ih (envSet a b e)
    simp only [envUpdate, List.foldl_cons] at this ⊢
    rw [this, lookupLast]
    cases lookupLast rest k with
    | some x => rfl
    | none => simp only [envGet_envSet]; split <;> rfl

theorem childEnv_eq (c : Cfg) :
    childEnv c = envUpdate (envUpdate c.osenv (supervisorVars c)) (c.environment.getD []) := by
  simp only [childEnv, supervisorVars, effectiveUrl, spawnChild_g1, spawnChild_g2, spawnChild_g3, spawnChild_g4,
    env_key_enabled, env_val_enabled, env_key_server_url, env_key_process_name, env_key_group_name]
  cases hs : c.serverurl <;> cases ho : c.optServerurl <;> cases hg : c.group <;> cases he : c.environment <;>
    simp [envUpdate] <;> split <;> simp_all [envUpdate]

theorem mem_specSteps_isPrep (c : Cfg) : ∀ c' h, Step.sys c' h ∈ specSteps c → c'.isPrep = true := by
  intro c' h hm
  rw [← preSteps_eq] at hm
  exact mem_preSteps_isPrep c c' h hm

/-- a step's failure is swallowed only for `close` raising OSError -/
theorem swallow_only_close (c : Cfg) : ∀ c' h f, Step.sys c' h ∈ specSteps c → h f = .swallow →
    ∃ fd e n, c' = .close fd ∧ f = .oserr e n := by
  intro c' h f hm hs
  simp only [specSteps, specFd, specPriv, specPrivTail, specDir, specUmask, List.mem_append, List.mem_cons,
    List.mem_map, List.mem_singleton] at hm
  rcases hm with (((hm | hm) | hm) | hm) | hm
  · rcases hm with hm | hm
    · cases hm; simp [hPropagate] at hs
    · simp at hm
  · rcases hm with (hm | hm) | hm
    · split at hm
      · simp at hm; rcases hm with ⟨rfl, rfl⟩; simp [hPropagate] at hs
      · simp at hm
    · rcases hm with hm | hm | hm | hm
      · cases hm; simp [hPropagate] at hs
      · cases hm; simp [hPropagate] at hs
      · cases hm; simp [hPropagate] at hs
      · simp at hm
    · obtain ⟨fd, _, hfd⟩ := hm
      cases hfd
      cases f <;> simp [hClose] at hs
      exact ⟨fd, _, _, rfl, rfl⟩
  · split at hm
    · simp at hm
    · simp only [List.mem_append, List.mem_cons] at hm
      rcases hm with (hm | hm | hm) | hm
      · cases hm; cases f <;> simp [hGuarded] at hs
      · cases hm; cases f <;> simp [hGuarded] at hs
      · simp at hm
      · split at hm
        · simp at hm
        · split at hm
          · simp at hm
          · simp at hm
            rcases hm with ⟨rfl, rfl⟩ | ⟨rfl, rfl⟩ | ⟨rfl, rfl⟩ | ⟨rfl, rfl⟩ <;> cases f <;> simp [hGuarded] at hs
  · split at hm
    · simp at hm; rcases hm with ⟨rfl, rfl⟩; cases f <;> simp [hChdir] at hs
    · simp at hm
  · split at hm
    · simp at hm; rcases hm with ⟨rfl, rfl⟩
      cases f <;> simp [hExec] at hs
      split at hs <;> simp at hs
    · simp at hm

/-- a failure listed in `reasonFor` is reported by the step's handler with exactly that reason -/
theorem reported_handler (c : Cfg) : ∀ c' h f m, Step.sys c' h ∈ specSteps c → reasonFor c c' f = some m →
    h f = .report m := by
  intro c' h f m hm hr
  simp only [specSteps, specFd, specPriv, specPrivTail, specDir, specUmask, List.mem_append, List.mem_cons,
    List.mem_map, List.mem_singleton] at hm
  rcases hm with (((hm | hm) | hm) | hm) | hm
  · rcases hm with hm | hm
    · cases hm; simp [reasonFor] at hr
    · simp at hm
  · rcases hm with (hm | hm) | hm
    · split at hm
      · simp at hm; rcases hm with ⟨rfl, rfl⟩; simp [reasonFor] at hr
      · simp at hm
    · rcases hm with hm | hm | hm | hm
      · cases hm; simp [reasonFor] at hr
      · cases hm; simp [reasonFor] at hr
      · cases hm; simp [reasonFor] at hr
      · simp at hm
    · obtain ⟨fd, _, hfd⟩ := hm
      cases hfd; simp [reasonFor] at hr
  · split at hm
    · simp at hm
    · rename_i u hu
      simp only [List.mem_append, List.mem_cons] at hm
      rcases hm with (hm | hm | hm) | hm
      · cases hm; cases f <;> simp [reasonFor] at hr
        simp [hGuarded, hr]
      · cases hm; simp [reasonFor] at hr
      · simp at hm
      · split at hm
        · simp at hm
        · split at hm
          · simp at hm
          · simp at hm
            rcases hm with ⟨rfl, rfl⟩ | ⟨rfl, rfl⟩ | ⟨rfl, rfl⟩ | ⟨rfl, rfl⟩
            · simp [reasonFor] at hr
            · cases f <;> simp [reasonFor, hu] at hr
              simp [hGuarded, hr]
            · cases f <;> simp [reasonFor, hu] at hr
              simp [hGuarded, hr]
            · cases f <;> simp [reasonFor, hu] at hr
              simp [hGuarded, hr]
  · split at hm
    · simp at hm; rcases hm with ⟨rfl, rfl⟩
      cases f <;> simp [reasonFor] at hr
      simp [hChdir, hr]
    · simp at hm
  · split at hm
    · simp at hm; rcases hm with ⟨rfl, rfl⟩
      cases f <;> simp [reasonFor, execReason] at hr
      · obtain ⟨a, ha, hr⟩ := hr
        cases hargv : c.argv with
        | nil => simp [hargv] at ha
        | cons x xs => simp [hargv] at ha; subst ha; simp [hExec, hargv, hr]
      · simp [hExec, hr]
      · simp [hExec, hr]
    · simp at hm

theorem execReason_handler (c : Cfg) (f : Fail) (m : String) (h : execReason c f = some m) :
    hExec c.filename c.argv f = .report m := by
  cases f <;> simp [execReason] at h
  · obtain ⟨a, ha, hr⟩ := h
    cases hargv : c.argv with
    | nil => simp [hargv] at ha
    | cons x xs => simp [hargv] at ha; subst ha; simp [hExec, hargv, hr]
  · simp [hExec, h]
  · simp [hExec, h]

/-- without a refusal step the script's calls are exactly the promised ones -/
theorem calls_specSteps (c : Cfg) (h : NoRefuse (specSteps c)) :
    calls (specSteps c) = promisedCalls c ∧ CanSwitch c := by
  have hcs : CanSwitch c := by
    intro u hu
    by_cases h1 : c.curUid = u
    · exact Or.inl h1
    · by_cases h2 : c.curUid = 0
      · exact Or.inr h2
      · exfalso
        apply h (msgSetuid u reasonNonRoot)
        simp [specSteps, specPriv, specPrivTail, hu, h1, h2]
  refine ⟨?_, hcs⟩
  simp only [specSteps, promisedCalls, calls_append, specFd, closeCalls, calls_map_sys, specDir, specUmask]
  congr 1
  · congr 1
    · congr 1
      · cases c.fcgi <;> simp [calls]
      · simp only [specPriv, userCalls]
        cases hu : c.uid with
        | none => simp [calls]
        | some u =>
          simp only [calls_append, specPrivTail]
          rcases hcs u hu with h1 | h2
          · simp [h1, calls]
          · by_cases h1 : c.curUid = u
            · simp [h1, calls]
            · simp only [if_neg h1, if_neg (show ¬ (c.curUid ≠ 0) by simp [h2])]
              simp [calls]
    · cases c.directory <;> simp [calls]
  · cases c.umask <;> simp [calls]

theorem refuse_mem_specSteps (c : Cfg) (m : String) (h : Step.refuse m ∈ specSteps c) :
    ∃ u, c.uid = some u ∧ c.curUid ≠ u ∧ c.curUid ≠ 0 ∧ m = msgSetuid u reasonNonRoot := by
  simp only [specSteps, specFd, specPriv, specPrivTail, specDir, specUmask, List.mem_append, List.mem_cons,
    List.mem_map, List.mem_singleton] at h
  rcases h with (((h | h) | h) | h) | h
  · simp at h
  · rcases h with (h | h) | h
    · split at h <;> simp at h
    · simp at h
    · obtain ⟨_, _, h⟩ := h; cases h
  · split at h
    · simp at h
    · rename_i u hu
      simp only [List.mem_append, List.mem_cons] at h
      rcases h with (h | h | h) | h
      · cases h
      · cases h
      · simp at h
      · split at h
        · simp at h
        · rename_i h1
          split at h
          · rename_i h2
            simp at h
            exact ⟨u, hu, h1, h2, h⟩
          · simp at h
  · split at h <;> simp at h
  · split at h <;> simp at h

end Sv.Child.Aux

/-! ## 3. The property theorems -/
namespace Sv.Props.C18
open Sv Sv.Child Sv.Gen.Child Sv.Child.Aux

/-- the descriptors closed are exactly 3 … minfds−1 -/
theorem mem_pyRange (lo hi x : Int) : x ∈ pyRange lo hi ↔ lo ≤ x ∧ x < hi := by
  simp only [pyRange, List.mem_map, List.mem_range]
  constructor
  · rintro ⟨i, hi', rfl⟩; omega
  · intro ⟨h1, h2⟩; exact ⟨(x - lo).toNat, by omega, by omega⟩

/-- **Environment.**  The environment handed to `execve` is supervisord's own, overlaid with
    SUPERVISOR_ENABLED, SUPERVISOR_SERVER_URL (when a non-empty URL is known),
    SUPERVISOR_PROCESS_NAME, SUPERVISOR_GROUP_NAME (when in a group), overlaid with the
    configured environment — later overriding earlier, for every variable name. -/
theorem env_composition (c : Cfg) (k : String) : envGet (childEnv c) k = promisedLookup c k := by
  rw [childEnv_eq, envGet_envUpdate, envGet_envUpdate, promisedLookup]

/-- **The configured environment is the program's own.**  The loop at the end of `read_config` gives every process
    configuration the [supervisord] environment overlaid with the `environment=` of ITS section: the environments of the
    other programs of the file, their number and the order in which they are processed do not enter. -/
theorem configured_env_independent (sectionEnv : Env) (procEnvs : List Env) :
    parseMergeAll read_config_env_copied sectionEnv procEnvs = procEnvs.map (parseMerge sectionEnv) := by
  simp [parseMergeAll, read_config_env_copied]

theorem configured_env_of_program (sectionEnv own : Env) (before after : List Env) :
    (parseMergeAll read_config_env_copied sectionEnv (before ++ own :: after))[before.length]? = some (parseMerge sectionEnv own) := by
  simp [configured_env_independent]

/-- … and that environment, not another program's, is what `execve` gets on top of supervisord's own and SUPERVISOR_*:
    for the program at any position of the file, with any programs before and after it -/
theorem exec_env_of_program (c : Cfg) (sectionEnv own : Env) (before after : List Env)
    (h : (parseMergeAll read_config_env_copied sectionEnv (before ++ own :: after))[before.length]? = some (c.environment.getD [])) :
    childEnv c = envUpdate (envUpdate c.osenv (supervisorVars c)) (envUpdate sectionEnv own) := by
  rw [configured_env_of_program] at h
  injection h with h
  rw [childEnv_eq, ← h, parseMerge]

-- the same loop with ONE dictionary for all programs (`env = section.environment`): alpha would run with gamma's settings
example : parseMergeAll false [("SHARED", "sup")] [[("SHARED", "alpha")], [], [("SHARED", "gamma"), ("ONLY_GAMMA", "1")]]
    = List.replicate 3 [("SHARED", "gamma"), ("ONLY_GAMMA", "1")] := by decide
example : parseMergeAll read_config_env_copied [("SHARED", "sup")] [[("SHARED", "alpha")], [], [("SHARED", "gamma"), ("ONLY_GAMMA", "1")]]
    = [[("SHARED", "alpha")], [("SHARED", "sup")], [("SHARED", "gamma"), ("ONLY_GAMMA", "1")]] := by decide

/-! ### SUPERVISOR_SERVER_URL: which server the child is told about (docs/configuration.rst, `serverurl`: the program's own value
    if one is configured; if it "is set to AUTO, or is unset, supervisor will automatically construct a server URL, giving
    preference to a server that listens on UNIX domain sockets over one that listens on an internet socket") -/

def unixUrl (s : ServerCfg) : String := "unix://" ++ s.file

/-- an inet server listening on every interface (`port=9001`, `:9001`, `*:9001`: host '') is reached through localhost -/
def inetUrl (s : ServerCfg) : String :=
  "http://" ++ (if s.host.isEmpty then "localhost" else s.host) ++ ":" ++ toString s.port

/-- the documented choice over the configured servers: the FIRST unix-socket server if there is any, else the LAST inet server
    (the inet loop of `realize()` has no `break`; the documentation does not say which of several), else none -/
def documentedUrl (cfgs : List ServerCfg) : Option String :=
  match (cfgs.filter fun s => s.family = .unix).head? with
  | some s => some (unixUrl s)
  | none =>
    match (cfgs.filter fun s => s.family = .inet).getLast? with
    | some s => some (inetUrl s)
    | none => none

theorem unixUrl_nonempty (s : ServerCfg) : (unixUrl s).isEmpty = false := by simp [unixUrl, String.isEmpty_iff]
theorem inetUrl_nonempty (s : ServerCfg) : (inetUrl s).isEmpty = false := by simp [inetUrl, String.isEmpty_iff]

theorem stage0_url (s : ServerCfg) : stageUrl surl_stage0_fmt surl_stage0_args surl_stage0_defaults s = unixUrl s := by
  simp [stageUrl, surl_stage0_fmt, surl_stage0_args, surl_stage0_defaults, ServerCfg.field, unixUrl,
    pyFormat, pyFormatAux, ← String.append_assoc, List.lookup]

theorem stage1_url (s : ServerCfg) : stageUrl surl_stage1_fmt surl_stage1_args surl_stage1_defaults s = inetUrl s := by
  simp [stageUrl, surl_stage1_fmt, surl_stage1_args, surl_stage1_defaults, ServerCfg.field, inetUrl,
    pyFormat, pyFormatAux, ← String.append_assoc, List.lookup]

theorem stage0_family : stageFamily surl_stage0_family = .unix := by decide
theorem stage1_family : stageFamily surl_stage1_family = .inet := by decide

/-- **`options.serverurl` is the documented choice**, for EVERY list of server configurations (any number of servers of either
    family in any order): the two loops of `realize()` with their extracted guards, `break`s, formats and defaults compute
    `documentedUrl`.  (Without the guard `if self.serverurl is None:` of the inet loop the case "a unix and an inet server"
    leaves `inetUrl _ = unixUrl _` to prove.) -/
theorem server_url_choice (cfgs : List ServerCfg) : chooseServerUrl cfgs = documentedUrl cfgs := by
  simp only [chooseServerUrl, runStage, documentedUrl, stage0_url, stage1_url, stage0_family, stage1_family,
    surl_stage0_guard, surl_stage1_guard, surl_stage0_first, surl_stage1_first]
  cases (cfgs.filter fun s => s.family = .unix).head? <;>
    cases (cfgs.filter fun s => s.family = .inet).getLast? <;> simp [unixUrl_nonempty, inetUrl_nonempty]

/-- **preference for the UNIX domain socket server**: if any unix-socket server is configured, the url is `unix://<file>` of the
    first one — whatever inet servers are configured besides, before or after it -/
theorem unix_server_preferred (cfgs : List ServerCfg) (s : ServerCfg) (hs : s ∈ cfgs) (hu : s.family = .unix) :
    ∃ pre u post, cfgs = pre ++ u :: post ∧ u.family = .unix ∧ (∀ x ∈ pre, x.family ≠ .unix) ∧
      chooseServerUrl cfgs = some (unixUrl u) := by
  rw [server_url_choice, documentedUrl]
  cases h : (cfgs.filter fun s => s.family = .unix).head? with
  | none =>
    exfalso
    rw [List.head?_filter, List.find?_eq_none] at h
    exact absurd hu (by simpa using h s hs)
  | some u =>
    rw [List.head?_filter, List.find?_eq_some_iff_append] at h
    obtain ⟨hu', pre, post, rfl, hpre⟩ := h
    exact ⟨pre, u, post, rfl, by simpa using hu', fun x hx => by simpa using hpre x hx, rfl⟩

/-- **inet fallback**: only inet servers (at least one): `http://host:port` of the last one, `localhost` for an empty host -/
theorem inet_server_fallback (cfgs : List ServerCfg) (hne : cfgs ≠ []) (hall : ∀ x ∈ cfgs, x.family = .inet) :
    chooseServerUrl cfgs = some (inetUrl (cfgs.getLast hne)) := by
  rw [server_url_choice, documentedUrl]
  have h1 : (cfgs.filter fun s => s.family = .unix) = [] := by
    simp only [List.filter_eq_nil_iff]; intro x hx; simp [hall x hx]
  have h2 : (cfgs.filter fun s => s.family = .inet) = cfgs := by
    simp only [List.filter_eq_self]; intro x hx; simp [hall x hx]
  simp [h1, h2, List.getLast?_eq_some_getLast hne]

/-- no server section at all: no url -/
theorem no_server_no_url : chooseServerUrl [] = none := by
  rw [server_url_choice]; rfl

theorem configuredServerUrl_none_iff (raw : Option String) :
    configuredServerUrl raw = none ↔ raw = none ∨ ∃ s, raw = some s ∧ isAutoUrl s = true := by
  cases raw with
  | none => simp [configuredServerUrl]
  | some s => cases h : isAutoUrl s <;> simp [configuredServerUrl, h]

/-- **end to end, `serverurl` unset or AUTO**: the child of such a program (whose configured environment does not set the
    variable itself) is exec'ed with SUPERVISOR_SERVER_URL = the documented choice over the servers of the file; with no server
    configured the variable is whatever supervisord's own environment has -/
theorem child_told_constructed_url (c : Cfg) (raw : Option String) (cfgs : List ServerCfg)
    (hauto : raw = none ∨ ∃ s, raw = some s ∧ isAutoUrl s = true)
    (henv : lookupLast (c.environment.getD []) "SUPERVISOR_SERVER_URL" = none) :
    envGet (childEnv (withFileUrls c raw cfgs)) "SUPERVISOR_SERVER_URL" =
      match documentedUrl cfgs with
      | some u => some u
      | none => envGet c.osenv "SUPERVISOR_SERVER_URL" := by
  have hc := (configuredServerUrl_none_iff raw).mpr hauto
  have hne : ∀ u, documentedUrl cfgs = some u → u.isEmpty = false := by
    intro u hu
    simp only [documentedUrl] at hu
    split at hu
    · cases hu; exact unixUrl_nonempty _
    · split at hu
      · cases hu; exact inetUrl_nonempty _
      · cases hu
  rw [env_composition, promisedLookup]
  simp only [withFileUrls, henv, supervisorVars, effectiveUrl, hc, server_url_choice]
  cases hd : documentedUrl cfgs with
  | none => cases c.group <;> simp [lookupLast]
  | some u => cases c.group <;> simp [lookupLast, hne u hd]

/-- **end to end, explicit `serverurl`**: the child is told the program's own value, whatever servers are configured -/
theorem child_told_explicit_url (c : Cfg) (s : String) (cfgs : List ServerCfg)
    (hna : isAutoUrl s = false) (hne : s.isEmpty = false)
    (henv : lookupLast (c.environment.getD []) "SUPERVISOR_SERVER_URL" = none) :
    envGet (childEnv (withFileUrls c (some s) cfgs)) "SUPERVISOR_SERVER_URL" = some s := by
  rw [env_composition, promisedLookup]
  simp only [withFileUrls, henv, supervisorVars, effectiveUrl, configuredServerUrl, hna]
  cases c.group <;> simp [lookupLast, hne]

-- hypotheses are satisfiable: the demo's files (inet + unix in either order of the file: the inet sections come first in server_configs)
example : chooseServerUrl (serverConfigsOfFile [.inet (some "127.0.0.1") 49001, .unix "/tmp/supervisor.sock"]) = some "unix:///tmp/supervisor.sock" := by decide
example : chooseServerUrl (serverConfigsOfFile [.unix "/tmp/supervisor.sock", .inet (some "127.0.0.1") 49001]) = some "unix:///tmp/supervisor.sock" := by decide
example : chooseServerUrl (serverConfigsOfFile [.inet (some "*") 9001]) = some "http://localhost:9001" := by decide
example : chooseServerUrl (serverConfigsOfFile [.inet none 9001, .inet (some "Example.COM") 8080]) = some "http://example.com:8080" := by decide
example : chooseServerUrl (serverConfigsOfFile [.unix "/a.sock", .inet none 9001, .unix "/b.sock"]) = some "unix:///a.sock" := by decide
example : isAutoUrl "AUTO" = true ∧ isAutoUrl " auto " = true ∧ isAutoUrl "http://elsewhere:1234" = false ∧ isAutoUrl "" = false := by decide
-- the inet loop WITHOUT its guard (seeded change C18-8): the inet url replaces the unix one
example : runStage "AF_INET" (fun _ => true) false (stageUrl "http://%s:%s" ["host", "port"] [("host", "localhost")])
      [⟨.inet, "127.0.0.1", 49001, ""⟩, ⟨.unix, "", 0, "/tmp/supervisor.sock"⟩]
      (runStage "AF_UNIX" (fun _ => true) true (stageUrl "unix://%s" ["file"] []) [⟨.inet, "127.0.0.1", 49001, ""⟩, ⟨.unix, "", 0, "/tmp/supervisor.sock"⟩] none)
    = some "http://127.0.0.1:49001" := by decide

/-- the three shapes of a run of the child, used by all theorems below -/
theorem childLog_cases (c : Cfg) (orc : Oracle) :
    (∃ d, d.map (·.call) = promisedCalls c ∧ CanSwitch c ∧ (∀ e ∈ d, OkEv e ∧ e.call.isPrep = true) ∧
        childLog c orc = execStage c orc d) ∨
    (∃ d bad a, (∀ e ∈ d, OkEv e ∧ e.call.isPrep = true) ∧ bad.call.isPrep = true ∧ bad.res ≠ none ∧ ¬ OkEv bad ∧
        (∀ f m, bad.res = some f → reasonFor c bad.call f = some m → a = .report m) ∧
        childLog c orc = finish orc a (d ++ [bad])) ∨
    (∃ d u, (∀ e ∈ d, OkEv e ∧ e.call.isPrep = true) ∧ c.uid = some u ∧ c.curUid ≠ u ∧ c.curUid ≠ 0 ∧
        childLog c orc = finish orc (.report (msgSetuid u reasonNonRoot)) d) := by
  have hd : ∀ d, FromSteps (specSteps c) d → ∀ e ∈ d, OkEv e ∧ e.call.isPrep = true := by
    intro d hfrom e he
    obtain ⟨c', h, hm, hc, hr⟩ := hfrom e he
    refine ⟨?_, by rw [hc]; exact mem_specSteps_isPrep c c' h hm⟩
    rcases hr with hr | ⟨f, hf, hs⟩
    · exact Or.inl hr
    · obtain ⟨fd, en, n, h1, h2⟩ := swallow_only_close c c' h f hm hs
      refine Or.inr ⟨fd, en, n, ?_⟩
      cases e; simp_all
  unfold childLog
  rw [preSteps_eq]
  rcases run_cases orc (execStage c orc) (specSteps c) [] with
    ⟨d, hnr, hcalls, hfrom, hrun⟩ | ⟨d, c', h, f, hmem, hfrom, hns, hrun⟩ | ⟨d, m, hmem, hfrom, hrun⟩
  · obtain ⟨h1, h2⟩ := calls_specSteps c hnr
    exact Or.inl ⟨d, by rw [hcalls, h1], h2, hd d hfrom, by simpa using hrun⟩
  · refine Or.inr (Or.inl ⟨d, ⟨c', some f⟩, h f, hd d hfrom, mem_specSteps_isPrep c c' h hmem, by simp, ?_, ?_, by simpa using hrun⟩)
    · rintro (h0 | ⟨fd, en, n, h0⟩)
      · simp at h0
      · cases h0
        -- a close raising OSError is swallowed by its handler, so it cannot be the failing step
        have : Step.sys (.close fd) h ∈ specSteps c := hmem
        simp only [specSteps, specFd, specPriv, specPrivTail, specDir, specUmask, List.mem_append, List.mem_cons,
          List.mem_map, List.mem_singleton] at this
        rcases this with (((hm | hm) | hm) | hm) | hm
        · simp at hm
        · rcases hm with (hm | hm) | hm
          · split at hm <;> simp at hm
          · simp at hm
          · obtain ⟨_, _, hfd⟩ := hm
            cases hfd; simp [hClose] at hns
        · split at hm
          · simp at hm
          · simp only [List.mem_append, List.mem_cons] at hm
            rcases hm with (hm | hm | hm) | hm
            · cases hm
            · cases hm
            · simp at hm
            · split at hm
              · simp at hm
              · split at hm <;> simp at hm
        · split at hm <;> simp at hm
        · split at hm <;> simp at hm
    · intro f' m hf hr
      cases hf
      exact reported_handler c c' h f m hmem hr
  · obtain ⟨u, hu, h1, h2, rfl⟩ := refuse_mem_specSteps c m hmem
    exact Or.inr (Or.inr ⟨d, u, hd d hfrom, hu, h1, h2, by simpa using hrun⟩)

/-- **exec_preconditions.**  Wherever an `execve` appears in the log (attempted, successful or
    not), it is the configured command with the promised environment, the calls before it are
    exactly the promised ones in the promised order — new process group; descriptors 0, 1, 2 from
    the right sources (FastCGI socket as 0 for fcgi programs, the stdout pipe as 2 exactly when
    `redirect_stderr`); a close of every descriptor 3 … minfds−1; the user switch; the directory;
    the umask — every one of them succeeded (a `close` may have found its descriptor not open),
    and the configured user could be assumed. -/
theorem exec_preconditions (c : Cfg) (orc : Oracle) (pre post : List Ev) (ev : Ev)
    (hlog : childLog c orc = pre ++ ev :: post) (hex : ev.call.isExecve = true) :
    ev.call = .execve c.filename c.argv (childEnv c) ∧
    pre.map (·.call) = promisedCalls c ∧ (∀ e ∈ pre, OkEv e) ∧ CanSwitch c := by
  have hQ : ∀ d : List Ev, (∀ e ∈ d, OkEv e ∧ e.call.isPrep = true) → ∀ e ∈ d, ¬ (e.call.isExecve = true) := by
    intro d hd e he hx
    have := (hd e he).2
    cases hc : e.call <;> simp_all [Call.isExecve, Call.isPrep]
  have notexec_final : ∀ n, ∀ e ∈ finalEvs orc n, ¬ (e.call.isExecve = true) := by
    intro n e he; simp [finalEvs] at he; rcases he with rfl | rfl <;> simp [Call.isExecve]
  rcases childLog_cases c orc with ⟨d, hcalls, hcs, hd, hrun⟩ | ⟨d, bad, a, hd, hprep, _, _, _, hrun⟩ | ⟨d, u, hd, _, _, _, hrun⟩
  · rw [hrun] at hlog
    unfold execStage at hlog
    split at hlog
    · obtain ⟨t1, h1, h2⟩ := skip_prefix (fun e => e.call.isExecve = true) hex d pre (hQ d hd) hlog.symm
      cases t1 with
      | nil => simp at h2; simp at h1; subst h1; rw [← h2.1]; exact ⟨rfl, hcalls, fun e he => (hd e he).1, hcs⟩
      | cons x t1 => simp at h2
    · rename_i f hf
      obtain ⟨t, hfin, ht⟩ := finish_shape orc (hExec c.filename c.argv f) (d ++ [⟨execCall c, some f⟩])
      rw [hfin] at hlog
      simp only [List.append_assoc] at hlog
      obtain ⟨t1, h1, h2⟩ := skip_prefix (fun e => e.call.isExecve = true) hex d pre (hQ d hd) hlog.symm
      cases t1 with
      | nil => simp at h2; simp at h1; subst h1; rw [← h2.1]; exact ⟨rfl, hcalls, fun e he => (hd e he).1, hcs⟩
      | cons x t1 =>
        exfalso
        simp at h2
        have hmem : ev ∈ t1 ++ ev :: post := by simp
        rw [← h2.2] at hmem
        rcases List.mem_append.mp hmem with hm | hm
        · rcases ht with rfl | ⟨m, _, rfl⟩
          · simp at hm
          · simp at hm; subst hm; simp [Call.isExecve] at hex
        · exact notexec_final _ ev hm hex
  · exfalso
    obtain ⟨t, hfin, ht⟩ := finish_shape orc a (d ++ [bad])
    rw [hrun, hfin] at hlog
    have hmem : ev ∈ d ++ [bad] ++ t ++ finalEvs orc ((d ++ [bad]).length + t.length) := by rw [hlog]; simp
    simp only [List.mem_append, List.mem_singleton] at hmem
    rcases hmem with ((hm | hm) | hm) | hm
    · exact hQ d hd ev hm hex
    · subst hm; cases hc : ev.call <;> simp_all [Call.isExecve, Call.isPrep]
    · rcases ht with rfl | ⟨m, _, rfl⟩
      · simp at hm
      · simp at hm; subst hm; simp [Call.isExecve] at hex
    · exact notexec_final _ ev hm hex
  · exfalso
    rw [hrun, finish_report] at hlog
    have hmem : ev ∈ d ++ ⟨.write write_fd (msgSetuid u reasonNonRoot), orc d.length (.write write_fd (msgSetuid u reasonNonRoot))⟩ :: finalEvs orc (d.length + 1) := by
      rw [hlog]; simp
    simp only [List.mem_append, List.mem_cons] at hmem
    rcases hmem with hm | hm | hm
    · exact hQ d hd ev hm hex
    · subst hm; simp [Call.isExecve] at hex
    · exact notexec_final _ ev hm hex

/-- **no_exec_after_failure.**  Once any call has failed (other than a `close` that found its
    descriptor not open) no `execve` is attempted later in the log — in particular never after a
    failed user switch or directory change. -/
theorem no_exec_after_failure (c : Cfg) (orc : Oracle) (pre mid post : List Ev) (bad ev : Ev)
    (hlog : childLog c orc = pre ++ bad :: (mid ++ ev :: post)) (hbad : ¬ OkEv bad) :
    ev.call.isExecve = false := by
  cases hx : ev.call.isExecve with
  | false => rfl
  | true =>
    exfalso
    have h := exec_preconditions c orc (pre ++ bad :: mid) post ev (by simpa using hlog) hx
    exact hbad (h.2.2.1 bad (by simp))

/-- a configured user that cannot be assumed (not the current uid, and not root) means the
    command is never executed, whatever else happens -/
theorem no_exec_with_wrong_identity (c : Cfg) (orc : Oracle) (u : Int) (hu : c.uid = some u)
    (h1 : c.curUid ≠ u) (h2 : c.curUid ≠ 0) : ∀ ev ∈ childLog c orc, ev.call.isExecve = false := by
  intro ev hev
  cases hx : ev.call.isExecve with
  | false => rfl
  | true =>
    exfalso
    obtain ⟨pre, post, hsplit⟩ := List.append_of_mem hev
    have h := (exec_preconditions c orc pre post ev hsplit hx).2.2.2 u hu
    rcases h with h | h
    · exact h1 h
    · exact h2 h

/-- … and unless something failed even earlier, the refusal is written to descriptor 2 followed by
    the final message and `_exit(127)` -/
theorem nonroot_refusal_reported (c : Cfg) (orc : Oracle) (u : Int) (hu : c.uid = some u)
    (h1 : c.curUid ≠ u) (h2 : c.curUid ≠ 0) :
    (∃ bad ∈ childLog c orc, ¬ OkEv bad) ∨
    (∃ d r1 r2, childLog c orc = d ++ ⟨.write 2 (msgSetuid u reasonNonRoot), r1⟩ :: lastWords r2) := by
  rcases childLog_cases c orc with ⟨d, _, hcs, _, _⟩ | ⟨d, bad, a, _, _, _, hnok, _, hrun⟩ | ⟨d, u', _, hu', _, _, hrun⟩
  · rcases hcs u hu with h | h
    · exact absurd h h1
    · exact absurd h h2
  · left
    obtain ⟨t, hfin, _⟩ := finish_shape orc a (d ++ [bad])
    exact ⟨bad, by rw [hrun, hfin]; simp, hnok⟩
  · right
    rw [hu] at hu'; cases hu'
    obtain ⟨r, hr⟩ := finalEvs_eq orc (d.length + 1)
    exact ⟨d, _, r, by rw [hrun, finish_report, hr]; rfl⟩

/-- the engine of `failure_message_and_127`: a failing call for which `reasonFor` lists a reason is
    followed by the write of exactly that reason, the final message and `_exit(127)`, and nothing else -/
theorem reason_written (c : Cfg) (orc : Oracle) (pre post : List Ev) (bad : Ev)
    (f : Fail) (m : String) (hlog : childLog c orc = pre ++ bad :: post)
    (hf : bad.res = some f) (hr : reasonFor c bad.call f = some m) :
    ∃ r1 r2, post = ⟨.write 2 m, r1⟩ :: lastWords r2 := by
  -- the property of `bad` that no clean event has
  have hQ : ∀ d : List Ev, (∀ e ∈ d, OkEv e ∧ e.call.isPrep = true) →
      ∀ e ∈ d, ¬ (e.res = some f ∧ reasonFor c e.call f = some m) := by
    intro d hd e he ⟨h1, h2⟩
    rcases (hd e he).1 with h | ⟨fd, en, n, rfl⟩
    · rw [h] at h1; cases h1
    · simp at h1; subst h1; simp [reasonFor] at h2
  have hfinal : ∀ n, ∀ e ∈ finalEvs orc n, ¬ (e.res = some f ∧ reasonFor c e.call f = some m) := by
    intro n e he ⟨_, h2⟩
    simp [finalEvs] at he
    rcases he with rfl | rfl <;> simp [reasonFor] at h2
  have hwrite : ∀ fd s r, ¬ ((⟨.write fd s, r⟩ : Ev).res = some f ∧ reasonFor c (Call.write fd s) f = some m) := by
    intro fd s r ⟨_, h2⟩; simp [reasonFor] at h2
  have tail3 : ∀ (n : Nat) (x : Ev), ∃ r2, finalEvs orc n = lastWords r2 := fun n _ => finalEvs_eq orc n
  rcases childLog_cases c orc with ⟨d, _, _, hd, hrun⟩ | ⟨d, bad', a, hd, _, _, _, ha, hrun⟩ | ⟨d, u, hd, _, _, _, hrun⟩
  · rw [hrun] at hlog
    unfold execStage at hlog
    split at hlog
    · obtain ⟨t1, _, h2⟩ := skip_prefix (fun e => e.res = some f ∧ reasonFor c e.call f = some m) ⟨hf, hr⟩ d pre (hQ d hd) hlog.symm
      exfalso
      cases t1 with
      | nil => simp at h2; rw [← h2.1] at hf; simp at hf
      | cons x t1 => simp at h2
    · rename_i f' hf'
      obtain ⟨t, hfin, ht⟩ := finish_shape orc (hExec c.filename c.argv f') (d ++ [⟨execCall c, some f'⟩])
      rw [hfin] at hlog
      simp only [List.append_assoc] at hlog
      obtain ⟨t1, _, h2⟩ := skip_prefix (fun e => e.res = some f ∧ reasonFor c e.call f = some m) ⟨hf, hr⟩ d pre (hQ d hd) hlog.symm
      cases t1 with
      | nil =>
        simp at h2
        obtain ⟨hb, hp⟩ := h2
        rw [← hb] at hf hr
        simp at hf; subst hf
        have hrep := execReason_handler c f' m (by simpa [execCall, reasonFor] using hr)
        rcases ht with rfl | ⟨m', hm', rfl⟩
        · rw [hrep] at *; simp at hfin
          exfalso
          rw [finish_report] at hfin
          have := congrArg List.length hfin
          simp [finalEvs] at this
        · rw [hrep] at hm'; cases hm'
          rw [← hp]; exact ⟨_, _, rfl⟩
      | cons x t1 =>
        exfalso
        simp at h2
        have hmem : bad ∈ t1 ++ bad :: post := by simp
        rw [← h2.2] at hmem
        rcases List.mem_append.mp hmem with hm | hm
        · rcases ht with rfl | ⟨m', _, rfl⟩
          · simp at hm
          · simp at hm; subst hm; exact hwrite _ _ _ ⟨hf, hr⟩
        · exact hfinal _ bad hm ⟨hf, hr⟩
  · obtain ⟨t, hfin, ht⟩ := finish_shape orc a (d ++ [bad'])
    rw [hrun, hfin] at hlog
    simp only [List.append_assoc] at hlog
    obtain ⟨t1, _, h2⟩ := skip_prefix (fun e => e.res = some f ∧ reasonFor c e.call f = some m) ⟨hf, hr⟩ d pre (hQ d hd) hlog.symm
    cases t1 with
    | nil =>
      simp at h2
      obtain ⟨hb, hp⟩ := h2
      subst hb
      have hrep := ha f m hf hr
      rcases ht with rfl | ⟨m', hm', rfl⟩
      · exfalso
        subst hrep
        rw [finish_report] at hfin
        have := congrArg List.length hfin
        simp [finalEvs] at this
      · rw [hrep] at hm'; cases hm'
        rw [← hp]; exact ⟨_, _, rfl⟩
    | cons x t1 =>
      exfalso
      simp at h2
      have hmem : bad ∈ t1 ++ bad :: post := by simp
      rw [← h2.2] at hmem
      rcases List.mem_append.mp hmem with hm | hm
      · rcases ht with rfl | ⟨m', _, rfl⟩
        · simp at hm
        · simp at hm; subst hm; exact hwrite _ _ _ ⟨hf, hr⟩
      · exact hfinal _ bad hm ⟨hf, hr⟩
  · exfalso
    rw [hrun, finish_report] at hlog
    obtain ⟨t1, _, h2⟩ := skip_prefix (fun e => e.res = some f ∧ reasonFor c e.call f = some m) ⟨hf, hr⟩ d pre (hQ d hd) hlog.symm
    have hmem : bad ∈ (⟨.write write_fd (msgSetuid u reasonNonRoot), orc d.length (.write write_fd (msgSetuid u reasonNonRoot))⟩ : Ev) :: finalEvs orc (d.length + 1) := by
      rw [h2]; simp
    rcases List.mem_cons.mp hmem with hm | hm
    · subst hm; exact hwrite _ _ _ ⟨hf, hr⟩
    · exact hfinal _ bad hm ⟨hf, hr⟩

/-- **failure_message_and_127.**  Whenever a call of the user switch (`getpwuid`, `setgroups`,
    `setgid`, `setuid` — F22 fixed), the directory change (`chdir`) or the exec stage (`umask`,
    `execve`) fails in one of the ways `Raises` lists — every errno, and for the exec stage every
    exception — the very next call writes the reason to descriptor 2, then the final message is
    written and the child exits with status 127; that is the whole rest of the log, whether or not
    the writes succeed.  (`argv ≠ []`: the reason for a failed exec names `argv[0]`;
    `get_execv_args` never yields an empty argv.)

    Outside `Raises` — a non-OSError exception out of `os.chdir`/`os.setgid`/`os.setgroups`/
    `os.setuid`, a non-KeyError out of `pwd.getpwuid`, any exception out of `os.getuid`/
    `grp.getgrall` — these functions do not raise such exceptions for well-typed arguments; were
    one raised, `any_failure_exits_127` still gives no exec, the final message and `_exit(127)`,
    without a specific reason. -/
theorem failure_message_and_127 (c : Cfg) (orc : Oracle) (pre post : List Ev) (bad : Ev) (f : Fail)
    (hargv : c.argv ≠ []) (hlog : childLog c orc = pre ++ bad :: post)
    (hf : bad.res = some f) (hr : Raises bad.call f) :
    ∃ m r1 r2, reasonFor c bad.call f = some m ∧ post = ⟨.write 2 m, r1⟩ :: lastWords r2 := by
  have hmem : bad ∈ childLog c orc := by rw [hlog]; simp
  have hex : ∀ f, ∃ m, execReason c f = some m := by
    intro f
    cases f with
    | oserr e n =>
      cases ha : c.argv with
      | nil => exact absurd ha hargv
      | cons a r => exact ⟨msgExec a n, by simp [execReason, ha]⟩
    | keyerr d => exact ⟨_, rfl⟩
    | other d => exact ⟨_, rfl⟩
  have huid : ((∃ gs, bad.call = .setgroups gs) ∨ (∃ g, bad.call = .setgid g) ∨ (∃ u, bad.call = .setuid u)) →
      ∃ u, c.uid = some u := by
    intro hc
    have hp : bad.call.isPrep = true := by
      rcases hc with ⟨_, h⟩ | ⟨_, h⟩ | ⟨_, h⟩ <;> rw [h] <;> rfl
    obtain ⟨h, hm⟩ := prep_calls_from_script c orc bad hmem hp
    obtain ⟨u, hu, _⟩ := priv_step_has_uid c bad.call h hm hc
    exact ⟨u, hu⟩
  have hsome : ∃ m, reasonFor c bad.call f = some m := by
    cases hc : bad.call with
    | getpwuid u => rw [hc] at hr; obtain ⟨d, rfl⟩ := hr; exact ⟨_, rfl⟩
    | setgroups gs =>
      rw [hc] at hr; obtain ⟨e, n, rfl⟩ := hr
      obtain ⟨u, hu⟩ := huid (Or.inl ⟨gs, hc⟩)
      exact ⟨msgSetuid u reasonGroups, by simp [reasonFor, hu]⟩
    | setgid g =>
      rw [hc] at hr; obtain ⟨e, n, rfl⟩ := hr
      obtain ⟨u, hu⟩ := huid (Or.inr (Or.inl ⟨g, hc⟩))
      exact ⟨msgSetuid u reasonGid, by simp [reasonFor, hu]⟩
    | setuid u' =>
      rw [hc] at hr; obtain ⟨e, n, rfl⟩ := hr
      obtain ⟨u, hu⟩ := huid (Or.inr (Or.inr ⟨u', hc⟩))
      exact ⟨msgSetuid u reasonUid, by simp [reasonFor, hu]⟩
    | chdir d => rw [hc] at hr; obtain ⟨e, n, rfl⟩ := hr; exact ⟨_, rfl⟩
    | umask m => obtain ⟨m', hm'⟩ := hex f; exact ⟨m', by simp [reasonFor, hm']⟩
    | execve a b e => obtain ⟨m', hm'⟩ := hex f; exact ⟨m', by simp [reasonFor, hm']⟩
    | setpgrp => rw [hc] at hr; exact absurd hr (by simp [Raises])
    | sockFileno => rw [hc] at hr; exact absurd hr (by simp [Raises])
    | dup2 a b => rw [hc] at hr; exact absurd hr (by simp [Raises])
    | close fd => rw [hc] at hr; exact absurd hr (by simp [Raises])
    | getuid => rw [hc] at hr; exact absurd hr (by simp [Raises])
    | getgrall => rw [hc] at hr; exact absurd hr (by simp [Raises])
    | write fd m => rw [hc] at hr; exact absurd hr (by simp [Raises])
    | exit n => rw [hc] at hr; exact absurd hr (by simp [Raises])
  obtain ⟨m, hm⟩ := hsome
  obtain ⟨r1, r2, hp⟩ := reason_written c orc pre post bad f m hlog hf hm
  exact ⟨m, r1, r2, hm, hp⟩

/-- **never_returns.**  The log always ends with `_exit(127)` — preceded by the final message —
    unless `execve` succeeded, in which case the successful `execve` is the last entry.  (Fix of
    F19: this holds also when the final `write` itself fails.) -/
theorem never_returns (c : Cfg) (orc : Oracle) :
    (∃ pre r, childLog c orc = pre ++ lastWords r) ∨
    (∃ pre, childLog c orc = pre ++ [⟨.execve c.filename c.argv (childEnv c), none⟩]) := by
  have hfin : ∀ a log, ∃ pre r, finish orc a log = pre ++ lastWords r := by
    intro a log
    obtain ⟨t, h, _⟩ := finish_shape orc a log
    obtain ⟨r, hr⟩ := finalEvs_eq orc (log.length + t.length)
    exact ⟨log ++ t, r, by rw [h, hr]⟩
  rcases childLog_cases c orc with ⟨d, _, _, _, hrun⟩ | ⟨d, bad, a, _, _, _, _, _, hrun⟩ | ⟨d, u, _, _, _, _, hrun⟩
  · rw [hrun]
    unfold execStage
    split
    · exact Or.inr ⟨d, rfl⟩
    · exact Or.inl (hfin _ _)
  · rw [hrun]; exact Or.inl (hfin _ _)
  · rw [hrun]; exact Or.inl (hfin _ _)

/-- nothing follows `_exit`, and nothing follows a successful `execve` -/
theorem nothing_after_the_end (c : Cfg) (orc : Oracle) (pre post : List Ev) (ev : Ev)
    (hlog : childLog c orc = pre ++ ev :: post)
    (hend : Terminal ev) : post = [] := by
  have hQd : ∀ d : List Ev, (∀ e ∈ d, OkEv e ∧ e.call.isPrep = true) →
      ∀ e ∈ d, ¬ Terminal e := by
    intro d hd e he hx
    have := (hd e he).2
    rcases hx with ⟨n, hn⟩ | ⟨hx, _⟩
    · rw [hn] at this; simp [Call.isPrep] at this
    · cases hc : e.call <;> simp_all [Call.isExecve, Call.isPrep]
  -- generic: in `d ++ [x] ++ t ++ finalEvs` with x, t not terminal, a terminal event is the very last
  have key : ∀ (d mid : List Ev) (n : Nat), (∀ e ∈ d, OkEv e ∧ e.call.isPrep = true) →
      (∀ e ∈ mid, ¬ Terminal e) →
      pre ++ ev :: post = d ++ (mid ++ finalEvs orc n) → post = [] := by
    intro d mid n hd hmid h
    obtain ⟨t1, _, h2⟩ := skip_prefix Terminal hend d pre (hQd d hd) h
    obtain ⟨t2, _, h3⟩ := skip_prefix Terminal hend mid t1 hmid h2.symm
    cases t2 with
    | nil =>
      simp [finalEvs] at h3
      rw [← h3.1] at hend
      simp [Terminal, Call.isExecve] at hend
    | cons x t2 =>
      cases t2 with
      | nil => simp [finalEvs] at h3; first | exact h3.2.2 | exact h3.2.2.symm
      | cons y t2 => simp [finalEvs] at h3
  rcases childLog_cases c orc with ⟨d, _, _, hd, hrun⟩ | ⟨d, bad, a, hd, hprep, hne, _, _, hrun⟩ | ⟨d, u, hd, _, _, _, hrun⟩
  · rw [hrun] at hlog
    unfold execStage at hlog
    split at hlog
    · obtain ⟨t1, _, h2⟩ := skip_prefix Terminal hend d pre (hQd d hd) hlog.symm
      cases t1 with
      | nil => simp at h2; first | exact h2.2 | exact h2.2.symm
      | cons x t1 => simp at h2
    · rename_i f hf
      obtain ⟨t, hfin, ht⟩ := finish_shape orc (hExec c.filename c.argv f) (d ++ [⟨execCall c, some f⟩])
      rw [hfin] at hlog
      apply key d ([⟨execCall c, some f⟩] ++ t) _ hd _ (by simpa using hlog.symm)
      intro e he hx
      rcases List.mem_append.mp he with he | he
      · simp at he; subst he
        rcases hx with ⟨n, hn⟩ | ⟨_, hx⟩
        · simp [execCall] at hn
        · simp at hx
      · rcases ht with rfl | ⟨m, _, rfl⟩
        · simp at he
        · simp at he; subst he; simp [Terminal, Call.isExecve] at hx
  · obtain ⟨t, hfin, ht⟩ := finish_shape orc a (d ++ [bad])
    rw [hrun, hfin] at hlog
    apply key d ([bad] ++ t) _ hd _ (by simpa using hlog.symm)
    intro e he hx
    rcases List.mem_append.mp he with he | he
    · simp at he; subst he
      rcases hx with ⟨n, hn⟩ | ⟨_, hx⟩
      · rw [hn] at hprep; simp [Call.isPrep] at hprep
      · exact hne hx
    · rcases ht with rfl | ⟨m, _, rfl⟩
      · simp at he
      · simp at he; subst he; simp [Terminal, Call.isExecve] at hx
  · rw [hrun, finish_report] at hlog
    apply key d [⟨.write write_fd (msgSetuid u reasonNonRoot), orc d.length (.write write_fd (msgSetuid u reasonNonRoot))⟩] _ hd _ (by simpa using hlog.symm)
    intro e he hx
    simp at he; subst he; simp [Terminal, Call.isExecve] at hx

/-- **any_failure_exits_127.**  After *any* failing call that is not ignored (every plausible or
    implausible exception at every call, including the ones `reasonFor` does not list), the log
    ends with the final message and `_exit(127)`, and no `execve` is attempted after it. -/
theorem any_failure_exits_127 (c : Cfg) (orc : Oracle) (pre post : List Ev) (bad : Ev)
    (hlog : childLog c orc = pre ++ bad :: post) (hbad : ¬ OkEv bad) :
    (∃ pre' r, childLog c orc = pre' ++ lastWords r) ∧ ∀ ev ∈ post, ev.call.isExecve = false := by
  constructor
  · rcases never_returns c orc with h | ⟨pre', h⟩
    · exact h
    · exfalso
      -- a successful execve as last entry: everything before it succeeded, and it is not `bad`
      have hx := exec_preconditions c orc pre' [] _ h rfl
      rw [h] at hlog
      have : bad ∈ pre' ++ [⟨Call.execve c.filename c.argv (childEnv c), none⟩] := by rw [hlog]; simp
      rcases List.mem_append.mp this with hm | hm
      · exact hbad (hx.2.2.1 bad hm)
      · simp at hm; subst hm; exact hbad (Or.inl rfl)
  · intro ev hev
    obtain ⟨mid, post', hsplit⟩ := List.append_of_mem hev
    exact no_exec_after_failure c orc pre mid post' bad ev (by rw [hlog, hsplit]) hbad

/-! ### F22 (fixed in /repo): `os.setuid` raising is reported like the other failures -/

/-- root supervisord, program user 33 -/
def cfgF22 : Cfg :=
  { fcgi := false, sockFd := 0, pin := 10, pout := 11, perr := 12, redirect := false, minfds := 3,
    uid := some 33, curUid := 0, pwName := "www", pwGid := 33, grdb := [], osenv := [], name := "p",
    group := none, serverurl := none, optServerurl := none, environment := none, directory := none,
    umask := none, filename := "/bin/cat", argv := ["/bin/cat"] }

/-- `os.setuid` (10th call) fails with EPERM -/
def orcF22 : Oracle := fun i _ => if i = 9 then some (.oserr 1 "EPERM") else none

-- the former counterexample, now an instance of `failure_message_and_127`
example : (childLog cfgF22 orcF22).drop 9 =
    [⟨.setuid 33, some (.oserr 1 "EPERM")⟩, ⟨.write 2 (msgSetuid 33 reasonUid), none⟩] ++ lastWords none := by decide
example : Raises (.setuid 33) (.oserr 1 "EPERM") := ⟨1, "EPERM", rfl⟩

/-! ### Non-vacuity: concrete runs of every kind -/

def cfgEx : Cfg :=
  { cfgF22 with fcgi := true, sockFd := 7, redirect := true, minfds := 5, directory := some "/srv",
                umask := some 18, osenv := [("PATH", "/bin"), ("SUPERVISOR_ENABLED", "0")],
                environment := some [("A", "1"), ("PATH", "/opt")], group := some "g",
                optServerurl := some "unix:///s" }

-- no fault: the promised calls, then the successful execve, and nothing else
example : (childLog cfgEx (fun _ _ => none)).map (·.call) = promisedCalls cfgEx ++ [execCall cfgEx] := by decide
example : envGet (childEnv cfgEx) "PATH" = some "/opt" ∧ envGet (childEnv cfgEx) "SUPERVISOR_ENABLED" = some "1" ∧
    envGet (childEnv cfgEx) "SUPERVISOR_GROUP_NAME" = some "g" ∧ envGet (childEnv cfgEx) "SUPERVISOR_SERVER_URL" = some "unix:///s" := by decide
-- chdir fails (hypotheses of failure_message_and_127 are satisfiable)
example : reasonFor cfgEx (.chdir "/srv") (.oserr 2 "ENOENT") = some (msgChdir "/srv" "ENOENT") := by decide
example : (childLog cfgEx (fun i _ => if i = 13 then some (.oserr 2 "ENOENT") else none)).drop 13 =
    [⟨.chdir "/srv", some (.oserr 2 "ENOENT")⟩, ⟨.write 2 (msgChdir "/srv" "ENOENT"), none⟩] ++ lastWords none := by decide
-- the final write fails too (F19): still _exit(127)
example : (childLog cfgEx (fun i _ => if i ≥ 13 then some (.oserr 9 "EBADF") else none)).drop 13 =
    [⟨.chdir "/srv", some (.oserr 9 "EBADF")⟩, ⟨.write 2 (msgChdir "/srv" "EBADF"), some (.oserr 9 "EBADF")⟩] ++
      lastWords (some (.oserr 9 "EBADF")) := by decide
-- non-root refusal
example : ¬ CanSwitch { cfgF22 with curUid := 500 } := by
  intro h; have := h 33 rfl; simp [cfgF22] at this

end Sv.Props.C18
